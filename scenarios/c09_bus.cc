// C09 BUS: a message is offered to every currently connected peer at most
// once, never comes back to the socket that sent it; raw mode: a message whose
// header names a pipe goes to every connected peer except that pipe.  Send
// never blocks, per-peer order, full queues drop whole messages.
//
// Scenarios
//   c09_mesh    paced (quiesce between operations) 2..4 node meshes, cooked and
//               raw nodes, raw nodes re-send received messages with header
//               variants; exact reference model
//   c09_raw     same driver, star around a raw hub, mostly forwarding
//   c09_device  same driver, the hub is one raw socket (reflector) or two raw
//               sockets under nng_device
//   c09_conc    concurrent senders/receivers/pipe churn, sound weaker oracle
//   c09_flood   slow network, nobody receives while senders flood: send must
//               not block, survivors are whole, ordered, not duplicated
#include "../harness/util.h"

#include <algorithm>
#include <deque>
#include <set>

namespace {

enum { K_MESH = 0, K_STAR, K_DEVICE };

static const nng_duration NEVER_MS    = 3600000; // no automatic redial within a run
static const uint64_t     SEND_BOUND  = 2000000000ull; // virtual ns net of stalls, generous

struct World;

struct Msg {
	int      sender; // node whose socket performed the send
	uint16_t origin; // tag origin (== sender except through a device)
	uint16_t stream; // 0 own message, 1 re-sent by a raw node
	uint32_t serial;
	size_t   len;
};

struct Pend {
	int id;
	int pipe; // receiver-side pipe id of the connection it was offered on
};

struct Node {
	World     *w;
	int        idx;
	nng_socket s;
	bool       raw;
	bool       hub; // owned by nng_device: the harness never sends/receives on it
	int        recvbuf, sendbuf; // as reported by the socket
	uint32_t   next_serial;
	// ---- reference model (paced scenarios) ----
	std::map<int, std::deque<Pend>> pending; // sending peer key -> offered, not yet received
	std::map<int, int>              offered; // msg id -> 1 (ever offered to this node)
	std::set<int>                   excluded; // ids that must not reach this node (raw header)
	std::set<int>                   got;
	std::set<int>                   skipped; // passed over after an overflow (dropped)
	long       held;     // messages the receive queue holds (lower bound when lossy)
	long       arrivals; // scratch: offers since the last settle
	bool       lossy;    // receive queue overflowed: some of `pending` were dropped
	UAio      *waiter;
	std::vector<int> stale_pipes; // ids of departed pipes of this node
	// ---- concurrent scenarios ----
	volatile int stop;
	int          to_send;
	int          received;
	int          sent;
	std::map<int, uint32_t> last_serial;
	std::vector<size_t>     lens;
};

struct Edge {
	int          a, b; // a dials, b listens
	std::string  url;
	nng_listener l;
	nng_dialer   d;
	bool         has_dialer;
	bool         up_a, up_b;
	int          pipe_a, pipe_b; // pipe ids at a's / b's side (valid while up_x)
	nng_pipe     np_a, np_b;
	bool         ever_up;
};

struct World {
	int                 kind;
	int                 tr;
	std::vector<Node *> nodes;
	std::vector<Edge>   edges;
	std::vector<Msg>    msgs;
	std::map<uint64_t, int> by_tag;
	std::map<int, std::pair<int, int>> pipe_owner; // pipe id -> (edge, side 0=a 1=b)
	int                 nhubs;
	int                 cb_unknown;
	long                delivered;
	long                fanout; // offers to a connected peer
};

// ------------------------------------------------------------ pipe events ---
static void
pipe_cb(nng_pipe p, nng_pipe_ev ev, void *arg)
{
	Node  *n   = (Node *) arg;
	World *w   = n->w;
	int    pid = nng_pipe_id(p);
	if (ev == NNG_PIPE_EV_ADD_POST) {
		int did = nng_dialer_id(nng_pipe_dialer(p));
		int lid = nng_listener_id(nng_pipe_listener(p));
		for (size_t i = 0; i < w->edges.size(); i++) {
			Edge &e = w->edges[i];
			if (did > 0 && e.has_dialer && e.a == n->idx && nng_dialer_id(e.d) == did) {
				e.up_a    = true;
				e.ever_up = true;
				e.pipe_a  = pid;
				e.np_a   = p;
				w->pipe_owner[pid] = std::make_pair((int) i, 0);
				sim_event("pipe+ node%d edge%zu(a) pipe=%d", n->idx, i, pid);
				return;
			}
			if (lid > 0 && e.b == n->idx && nng_listener_id(e.l) == lid) {
				e.up_b    = true;
				e.ever_up = true;
				e.pipe_b  = pid;
				e.np_b   = p;
				w->pipe_owner[pid] = std::make_pair((int) i, 1);
				sim_event("pipe+ node%d edge%zu(b) pipe=%d", n->idx, i, pid);
				return;
			}
		}
		w->cb_unknown++;
	} else if (ev == NNG_PIPE_EV_REM_POST) {
		auto it = w->pipe_owner.find(pid);
		if (it == w->pipe_owner.end())
			return;
		Edge &e = w->edges[(size_t) it->second.first];
		if (it->second.second == 0) {
			if (e.up_a && e.pipe_a == pid)
				e.up_a = false;
		} else {
			if (e.up_b && e.pipe_b == pid)
				e.up_b = false;
		}
		n->stale_pipes.push_back(pid);
		sim_event("pipe- node%d edge%d(%c) pipe=%d", n->idx, it->second.first,
		    it->second.second ? 'b' : 'a', pid);
		w->pipe_owner.erase(it);
	}
}

static inline bool
edge_up(const Edge &e)
{
	return e.up_a && e.up_b;
}
static inline bool
edge_down(const Edge &e)
{
	return !e.up_a && !e.up_b;
}

// ---------------------------------------------------------------- set-up ---
static Node *
add_node(World &w, bool raw, long rb, long sb)
{
	Node *n        = new Node();
	n->w           = &w;
	n->idx         = (int) w.nodes.size();
	n->raw         = raw;
	n->hub         = false;
	n->next_serial = 0;
	n->held        = 0;
	n->arrivals    = 0;
	n->lossy       = false;
	n->waiter      = NULL;
	n->stop        = 0;
	n->to_send     = 0;
	n->received    = 0;
	n->sent        = 0;
	if (raw)
		MUST(nng_bus0_open_raw(&n->s));
	else
		MUST(nng_bus0_open(&n->s));
	if (rb > 0)
		MUST(nng_socket_set_int(n->s, NNG_OPT_RECVBUF, (int) rb));
	if (sb > 0)
		MUST(nng_socket_set_int(n->s, NNG_OPT_SENDBUF, (int) sb));
	MUST(nng_socket_get_int(n->s, NNG_OPT_RECVBUF, &n->recvbuf));
	MUST(nng_socket_get_int(n->s, NNG_OPT_SENDBUF, &n->sendbuf));
	MUST(nng_socket_set_ms(n->s, NNG_OPT_SENDTIMEO, 5000));
	MUST(nng_socket_set_ms(n->s, NNG_OPT_RECVTIMEO, 100));
	MUST(nng_socket_set_ms(n->s, NNG_OPT_RECONNMINT, NEVER_MS));
	MUST(nng_socket_set_ms(n->s, NNG_OPT_RECONNMAXT, NEVER_MS));
	MUST(nng_pipe_notify(n->s, NNG_PIPE_EV_ADD_POST, pipe_cb, n));
	MUST(nng_pipe_notify(n->s, NNG_PIPE_EV_REM_POST, pipe_cb, n));
	w.nodes.push_back(n);
	return n;
}

static size_t
add_edge(World &w, int a, int b, int urlbase)
{
	Edge e;
	e.a = a;
	e.b = b;
	e.url        = h_url(w.tr, urlbase + (int) w.edges.size());
	e.has_dialer = false;
	e.up_a = e.up_b = false;
	e.pipe_a = e.pipe_b = 0;
	e.ever_up = false;
	memset(&e.d, 0, sizeof(e.d));
	memset(&e.np_a, 0, sizeof(e.np_a));
	memset(&e.np_b, 0, sizeof(e.np_b));
	MUST(nng_listener_create(&e.l, w.nodes[(size_t) b]->s, e.url.c_str()));
	MUST(nng_listener_start(e.l, 0));
	w.edges.push_back(e);
	return w.edges.size() - 1;
}

// wait (virtual time) until the edge is fully up / fully down
static void
wait_edge(World &w, size_t ei, bool want_up, bool polling)
{
	for (int i = 0; i < 3000; i++) {
		Edge &e = w.edges[ei];
		if (want_up ? edge_up(e) : edge_down(e))
			return;
		if (polling || i > 0)
			sim_sleep_ms(1);
		else
			sim_quiesce(5000000);
	}
	if (polling && !want_up && w.tr == TR_WS && !w.edges[ei].up_a && w.edges[ei].up_b) {
		// ws only, concurrent scenario only: the peer's close arrived while the
		// listening side had no transport receive posted (it was handing a
		// message up); the receive posted afterwards never fails, so that side
		// keeps a dead pipe until it next sends (transport behaviour outside
		// this property, reported).  Nothing can arrive on it any more.
		sim_probe("c09_ws_dead_pipe_lingers");
		w.edges[ei].up_b = false;
		return;
	}
	h_fatal("edge %zu did not come %s (up_a=%d up_b=%d)", ei, want_up ? "up" : "down",
	    (int) w.edges[ei].up_a, (int) w.edges[ei].up_b);
}

static void
edge_bring_up(World &w, size_t ei, bool polling)
{
	for (int attempt = 0;; attempt++) {
		{
			Edge &e = w.edges[ei];
			if (e.has_dialer) {
				e.has_dialer = false;
				(void) nng_dialer_close(e.d);
			}
			MUST(nng_dialer_create(&w.edges[ei].d, w.nodes[(size_t) e.a]->s, e.url.c_str()));
			w.edges[ei].has_dialer = true;
			sim_event("edge%zu up: node%d dials node%d", ei, e.a, e.b);
		}
		// from here on the two nodes may be connected: concurrent senders can get
		// a message across before wait_edge has seen both ADD_POST events
		w.edges[ei].ever_up = true;
		int rv = nng_dialer_start(w.edges[ei].d, 0);
		if (rv == NNG_ETIMEDOUT && w.tr == TR_WS && attempt < 5) {
			// the websocket handshake has a fixed 2 s limit; injected thread stalls
			// can use it up (legitimate outcome of a blocking dial: try again)
			sim_probe("c09_ws_dial_handshake_timeout");
			continue;
		}
		if (rv != 0)
			h_fatal("nng_dialer_start: %s", nng_strerror((nng_err) rv));
		break;
	}
	wait_edge(w, ei, true, polling);
}

static void
edge_take_down(World &w, size_t ei, int how, bool polling)
{
	sim_event("edge%zu down how=%d (node%d-node%d)", ei, how, w.edges[ei].a, w.edges[ei].b);
	if (how != 2) {
		// close one end's pipe, wait until the dialing side has lost its pipe,
		// then retire the dialer: its redial delay is random in [0, RECONNMINT)
		// and must not fire in the middle of a later operation
		int old_a = w.edges[ei].pipe_a;
		(void) nng_pipe_close(how == 0 ? w.edges[ei].np_a : w.edges[ei].np_b);
		for (int i = 0; i < 3000; i++) {
			Edge &e = w.edges[ei];
			if (!e.up_a || e.pipe_a != old_a)
				break;
			if (polling || i > 0)
				sim_sleep_ms(1);
			else
				sim_quiesce(5000000);
		}
		if (w.edges[ei].up_a && w.edges[ei].pipe_a != old_a)
			sim_probe("c09_auto_redial_seen");
	}
	w.edges[ei].has_dialer = false;
	(void) nng_dialer_close(w.edges[ei].d);
	wait_edge(w, ei, false, polling);
}

static void
close_world(World &w)
{
	for (auto n : w.nodes) {
		if (!n->hub)
			MUST(nng_socket_close(n->s));
	}
	for (auto n : w.nodes) {
		if (n->waiter)
			delete n->waiter;
		delete n;
	}
	w.nodes.clear();
}

// -------------------------------------------------------------- messages ---
static int
new_msg(World &w, Node *n, uint16_t stream, size_t len)
{
	Msg m;
	m.sender = n->idx;
	m.origin = (uint16_t) n->idx;
	m.stream = stream;
	m.serial = n->next_serial++;
	m.len    = len;
	w.msgs.push_back(m);
	int id = (int) w.msgs.size() - 1;
	w.by_tag[((uint64_t) m.origin << 32) | m.serial] = id;
	return id;
}

static long g_big = 3000; // largest payload; small when the network moves one byte per step

static size_t
draw_len(void)
{
	if (W(0, 4) == 4)
		return (size_t) (TAG_MIN + W(0, g_big));
	return (size_t) (TAG_MIN + W(0, 60));
}

// The send itself.  Clauses: "BUS send never blocks" (returns success, and
// without waiting for anybody).  how: 0 nng_sendmsg, 1 aio, 2 NNG_FLAG_NONBLOCK
static void
bus_send(Node *n, nng_msg *m, int how)
{
	uint64_t t0 = sim_now_ns(), s0 = sim_stall_total_ns();
	int      rv;
	if (how == 1) {
		UAio u;
		nng_aio_set_timeout(u.aio, 5000);
		nng_aio_set_msg(u.aio, m);
		u.arm("bus_send");
		nng_socket_send(n->s, u.aio);
		if (u.wait(30000000000ull) == (nng_err) -1)
			VIOL("send_blocked", "node%d: asynchronous BUS send did not complete", n->idx);
		rv = u.result;
	} else {
		rv = nng_sendmsg(n->s, m, how == 2 ? NNG_FLAG_NONBLOCK : 0);
	}
	uint64_t dt = sim_now_ns() - t0 - (sim_stall_total_ns() - s0);
	if (how == 2 && rv == NNG_EAGAIN)
		VIOL("bus_nonblock_eagain",
		    "node%d: BUS send with NNG_FLAG_NONBLOCK returned NNG_EAGAIN and sent nothing: BUS send "
		    "never blocks, so a non-blocking send must be an ordinary send",
		    n->idx);
	if (rv == NNG_EAGAIN || rv == NNG_ETIMEDOUT)
		VIOL("send_would_block",
		    "node%d: BUS send (%s) returned %d (%s): BUS send never blocks, so it can never "
		    "report that it would have to",
		    n->idx, how == 2 ? "NNG_FLAG_NONBLOCK" : how == 1 ? "aio" : "blocking", rv,
		    nng_strerror((nng_err) rv));
	if (rv != 0)
		VIOL("send_failed", "node%d: BUS send returned %d (%s)", n->idx, rv,
		    nng_strerror((nng_err) rv));
	if (dt > SEND_BOUND)
		VIOL("send_blocked", "node%d: BUS send took %llu ms of virtual time", n->idx,
		    (unsigned long long) (dt / 1000000));
}

static void
send_id(World &w, Node *n, int id, int how)
{
	const Msg  m   = w.msgs[(size_t) id];
	nng_msg   *msg = tag_msg(m.len, m.origin, m.stream, m.serial);
	if (msg == NULL)
		h_fatal("tag_msg");
	uint32_t hdr = 0;
	if (!n->raw && W(0, 7) == 7) {
		// cooked socket, application left a header on the message (e.g. it
		// re-sends something a raw socket received): still goes to every
		// peer, even if the header happens to name one of its pipes
		hdr = 0x7fe00000u + (uint32_t) W(0, 1000);
		if (W(0, 1) == 1)
			for (auto &e : w.edges) {
				if (e.a == n->idx && e.up_a)
					hdr = (uint32_t) e.pipe_a;
				else if (e.b == n->idx && e.up_b)
					hdr = (uint32_t) e.pipe_b;
			}
		MUST(nng_msg_header_append_u32(msg, hdr));
		sim_probe("c09_cooked_send_with_header");
	}
	sim_event("send node%d #%u len=%zu how=%d hdr=%u", n->idx, m.serial, m.len, how, hdr);
	bus_send(n, msg, how);
	n->sent++;
}

// identify a received message; whole-message clause
static int
identify(World &w, Node *r, nng_msg *m)
{
	Tag t = tag_parse((const uint8_t *) nng_msg_body(m), nng_msg_len(m));
	if (!t.ok)
		VIOL("corrupted_message", "node%d received a damaged message: len=%zu body=%s", r->idx,
		    nng_msg_len(m), h_hex((const uint8_t *) nng_msg_body(m), nng_msg_len(m), 40).c_str());
	auto it = w.by_tag.find(((uint64_t) t.origin << 32) | t.serial);
	if (it == w.by_tag.end() || w.msgs[(size_t) it->second].len != t.len ||
	    w.msgs[(size_t) it->second].stream != t.stream)
		VIOL("corrupted_message", "node%d received a well-formed message that nobody sent: origin=%u "
		    "stream=%u serial=%u len=%u",
		    r->idx, t.origin, t.stream, t.serial, t.len);
	return it->second;
}

// ------------------------------------------------- paced reference model ---
static inline int
sender_key(World &w, const Msg &m)
{
	// ordering unit: the peer socket that sent it; through a device the
	// hub interleaves origins in an order the model does not know, so the
	// unit is (hub, origin)
	return w.kind == K_DEVICE ? m.sender * 64 + m.origin : m.sender;
}

// node o performs a send of message id; exclude_pipe = pipe id named by the
// header in raw mode (0: none)
static void offer(World &w, Node *o, int id, uint32_t exclude_pipe, int depth);

static void
deliver_to(World &w, Node *o, Node *r, int id, int r_pipe, int depth)
{
	w.fanout++;
	if (r->hub) {
		// the device receives it on r (header := r_pipe) and sends it on
		// the partner socket (or on r itself for a reflector)
		Node *out = w.nhubs == 2 ? w.nodes[(size_t) (1 - r->idx)] : r;
		if (depth < 2)
			offer(w, out, id, (uint32_t) r_pipe, depth + 1);
		return;
	}
	Msg m    = w.msgs[(size_t) id];
	m.sender = o->idx;
	Pend pe  = { id, r_pipe };
	r->pending[sender_key(w, m)].push_back(pe);
	r->offered[id] = o->idx + 1;
	r->arrivals++;
}

static void
offer(World &w, Node *o, int id, uint32_t exclude_pipe, int depth)
{
	for (auto &e : w.edges) {
		if (!edge_up(e))
			continue;
		Node *r;
		int   o_pipe, r_pipe;
		if (e.a == o->idx) {
			r      = w.nodes[(size_t) e.b];
			o_pipe = e.pipe_a;
			r_pipe = e.pipe_b;
		} else if (e.b == o->idx) {
			r      = w.nodes[(size_t) e.a];
			o_pipe = e.pipe_b;
			r_pipe = e.pipe_a;
		} else {
			continue;
		}
		if (exclude_pipe != 0 && (uint32_t) o_pipe == exclude_pipe) {
			r->excluded.insert(id);
			continue;
		}
		deliver_to(w, o, r, id, r_pipe, depth);
	}
}

static void consume(World &w, Node *r, nng_msg *m, int *idp, int *pipep);
static void check_raw_header(Node *r, nng_msg *m, int want_pipe, const Msg &mm);

static void
finish_waiter(World &w, Node *r, bool expect)
{
	UAio *u = r->waiter;
	if (expect) {
		if (!u->poll())
			VIOL("missed_delivery",
			    "node%d had a receive pending and a connected peer sent a message, but the "
			    "receive did not complete",
			    r->idx);
		if (u->result != 0)
			VIOL("missed_delivery", "node%d: pending receive failed with %d", r->idx, u->result);
		nng_msg *m = nng_aio_get_msg(u->aio);
		int      id, pipe;
		consume(w, r, m, &id, &pipe);
		nng_msg_free(m);
		delete u;
		r->waiter = NULL;
	} else if (u->poll()) {
		if (u->result == 0) {
			nng_msg *m = nng_aio_get_msg(u->aio);
			int      id, pipe;
			consume(w, r, m, &id, &pipe); // reports why it is wrong
			nng_msg_free(m);
			VIOL("unexpected_delivery", "node%d: pending receive completed although nothing was sent "
			    "to it",
			    r->idx);
		}
		VIOL("recv_error", "node%d: pending receive failed with %d", r->idx, u->result);
	}
}

// after the sends of one operation have quiesced: account arrivals
static void
settle(World &w)
{
	for (auto r : w.nodes) {
		if (r->hub)
			continue;
		long a      = r->arrivals;
		r->arrivals = 0;
		if (r->waiter != NULL) {
			finish_waiter(w, r, a > 0);
			if (a > 0)
				a--; // handed straight to the waiter, never queued
		}
		if (a == 0)
			continue;
		r->held += a;
		if (r->held > r->recvbuf) {
			r->held  = r->recvbuf;
			r->lossy = true;
			sim_probe("c09_recvq_overflow");
		}
	}
}

// model check of one received message.  Returns id and the arrival pipe the
// model expects.
static void
consume(World &w, Node *r, nng_msg *m, int *idp, int *pipep)
{
	int       id = identify(w, r, m);
	const Msg mm = w.msgs[(size_t) id];
	*idp         = id;
	*pipep        = 0;
	if (mm.origin == r->idx)
		VIOL("echoed_to_sender", "node%d received its own message #%u back", r->idx, mm.serial);
	if (r->got.count(id))
		VIOL("duplicate_delivery", "node%d received message origin=%u #%u twice", r->idx, mm.origin,
		    mm.serial);
	if (r->excluded.count(id))
		VIOL("raw_sent_to_named_pipe",
		    "node%d received message origin=%u #%u although the raw sender's header named the "
		    "pipe to node%d",
		    r->idx, mm.origin, mm.serial, r->idx);
	auto off = r->offered.find(id);
	if (off == r->offered.end())
		VIOL("unexpected_delivery",
		    "node%d received message origin=%u #%u but was not a connected peer of the sending "
		    "socket when it was sent",
		    r->idx, mm.origin, mm.serial);
	Msg key_m    = mm;
	key_m.sender = off->second - 1;
	int   key    = sender_key(w, key_m);
	auto &dq     = r->pending[key];
	size_t k     = 0;
	while (k < dq.size() && dq[k].id != id)
		k++;
	if (k == dq.size()) {
		if (r->skipped.count(id))
			VIOL("reordered",
			    "node%d received message origin=%u #%u after a later message of the same peer",
			    r->idx, mm.origin, mm.serial);
		VIOL("unexpected_delivery",
		    "node%d received message origin=%u #%u after its receive queue had been observed empty",
		    r->idx, mm.origin, mm.serial);
	}
	if (k > 0) {
		if (!r->lossy)
			VIOL("missed_delivery",
			    "node%d received origin=%u #%u but %zu earlier message(s) of the same peer, "
			    "offered while the receive queue (depth %d) had room, were skipped (first: #%u)",
			    r->idx, mm.origin, mm.serial, k, r->recvbuf, w.msgs[(size_t) dq[0].id].serial);
		for (size_t i = 0; i < k; i++)
			r->skipped.insert(dq[i].id);
		sim_probe("c09_recv_drop_seen");
	}
	*pipep = dq[k].pipe;
	dq.erase(dq.begin(), dq.begin() + (long) k + 1);
	r->got.insert(id);
	w.delivered++;
	sim_stat("delivered", 1);
	if (r->raw)
		check_raw_header(r, m, *pipep, mm);
}

static void
model_empty(Node *r)
{
	r->pending.clear();
	r->held  = 0;
	r->lossy = false;
}

// "a message whose header names the pipe it arrived on": what a raw socket
// hands up
static void
check_raw_header(Node *r, nng_msg *m, int want_pipe, const Msg &mm)
{
	size_t   hl = nng_msg_header_len(m);
	uint8_t *h  = (uint8_t *) nng_msg_header(m);
	uint32_t v  = hl >= 4 ? ((uint32_t) h[0] << 24) | ((uint32_t) h[1] << 16) | ((uint32_t) h[2] << 8) | h[3] : 0;
	if (hl != 4)
		sim_probe("c09_raw_header_len_not_4");
	if (hl < 4 || v != (uint32_t) want_pipe)
		VIOL("raw_header_not_arrival_pipe",
		    "raw node%d: message origin=%u #%u arrived on pipe %d but its header is %s", r->idx,
		    mm.origin, mm.serial, want_pipe, h_hex(h, hl, 16).c_str());
	int mp = nng_pipe_id(nng_msg_get_pipe(m));
	if (mp != want_pipe)
		sim_probe("c09_msg_pipe_differs");
}

// receive once on r.  how: 0 non-blocking, 1 blocking with the 100 ms timeout.
// Returns the message (caller frees) or NULL.
static nng_msg *
recv_once(World &w, Node *r, int how, int *idp, int *pipep)
{
	nng_msg *m  = NULL;
	int      rv = nng_recvmsg(r->s, &m, how == 0 ? NNG_FLAG_NONBLOCK : 0);
	*idp        = -1;
	if (rv != 0) {
		if (rv != NNG_EAGAIN && rv != NNG_ETIMEDOUT)
			VIOL("recv_error", "node%d: receive returned %d", r->idx, rv);
		if (r->held > 0)
			VIOL("missed_delivery",
			    "node%d: %ld message(s) were offered to it while connected and its queue "
			    "(depth %d) had room, but receive returned %d",
			    r->idx, r->held, r->recvbuf, rv);
		sim_event("recv node%d -> empty", r->idx);
		model_empty(r);
		return NULL;
	}
	consume(w, r, m, idp, pipep);
	if (r->held > 0)
		r->held--;
	else if (!r->lossy)
		VIOL("unexpected_delivery", "node%d received a message although its queue must be empty",
		    r->idx);
	if (r->held == 0 && !r->lossy)
		r->pending.clear();
	const Msg mm = w.msgs[(size_t) *idp];
	sim_event("recv node%d <- origin=%u #%u", r->idx, mm.origin, mm.serial);
	return m;
}

// raw node f re-sends a message it received (what a device does), with a
// header variant.  The body is re-authored in place so that the forwarded
// message has its own identity.
static void
forward(World &w, Node *f, nng_msg *m, int from_pipe)
{
	int      v      = (int) W(0, 5);
	int      id     = new_msg(w, f, 1, nng_msg_len(m));
	const Msg mm    = w.msgs[(size_t) id];
	uint32_t name   = 0;
	bool     clear  = false;
	tag_fill((uint8_t *) nng_msg_body(m), mm.len, mm.origin, mm.stream, mm.serial);
	if (v == 0 || v == 5) {
		name = (uint32_t) from_pipe; // as received
	} else if (v == 1) {
		clear = true;
	} else if (v == 2) {
		// name the pipe of some other connected peer
		std::vector<uint32_t> others;
		for (auto &e : w.edges) {
			if (!edge_up(e))
				continue;
			if (e.a == f->idx && e.pipe_a != from_pipe)
				others.push_back((uint32_t) e.pipe_a);
			if (e.b == f->idx && e.pipe_b != from_pipe)
				others.push_back((uint32_t) e.pipe_b);
		}
		if (others.empty())
			clear = true;
		else
			name = others[(size_t) W(0, (long) others.size() - 1)];
	} else if (v == 3) {
		name = 0x7ff00000u + (uint32_t) W(0, 1000); // names no pipe
	} else {
		if (f->stale_pipes.empty())
			name = 0x7ff00000u;
		else
			name = (uint32_t) f->stale_pipes[(size_t) W(0, (long) f->stale_pipes.size() - 1)];
	}
	if (clear) {
		nng_msg_header_clear(m);
		sim_probe("c09_fwd_no_header");
	} else if (v != 0 && v != 5) {
		nng_msg_header_clear(m);
		MUST(nng_msg_header_append_u32(m, name));
	}
	sim_event("forward node%d #%u variant=%d header=%s", f->idx, mm.serial, v,
	    clear ? "-" : std::to_string(name).c_str());
	if (!clear && (v == 0 || v == 5))
		sim_probe("c09_fwd_as_received");
	if (v == 2 && !clear)
		sim_probe("c09_fwd_other_pipe");
	bus_send(f, m, v == 5 ? 1 : 0);
	f->sent++;
	sim_quiesce(5000000);
	offer(w, f, id, clear ? 0 : name, 0);
	settle(w);
}

struct BurstArg {
	World           *w;
	Node            *n;
	std::vector<int> ids;
	int              how;
};

static void
burst_task(void *a)
{
	BurstArg *b = (BurstArg *) a;
	for (int id : b->ids)
		send_id(*b->w, b->n, id, b->how);
}

static std::vector<Node *>
plain_nodes(World &w)
{
	std::vector<Node *> v;
	for (auto n : w.nodes)
		if (!n->hub)
			v.push_back(n);
	return v;
}

static int
draw_how(Params *p)
{
	// 0 blocking-flag nng_sendmsg (simplest), 1 aio, 2 NNG_FLAG_NONBLOCK
	// nbsend=1 mixes NNG_FLAG_NONBLOCK sends in, nbsend=2 (c09_nbsend) uses
	// nothing else.  Off by default: the tree under test fails every such
	// send (known finding bus_nonblock_eagain), which would end almost every
	// run at its first send; c09_nbsend keeps that oracle alive.
	long h  = W(0, 5);
	long nb = p->i("nbsend", 0);
	if (nb == 2)
		return 2;
	if (h <= 3)
		return 0;
	if (h == 4)
		return 1;
	return nb ? 2 : 0;
}

static void
op_burst(World &w, Params *p, long budget_total)
{
	std::vector<Node *> pn = plain_nodes(w);
	int nsend = 1;
	if (pn.size() >= 2 && W(0, 3) == 3)
		nsend = (int) W(2, (long) std::min((size_t) 3, pn.size()));
	if (nsend > budget_total)
		nsend = (int) std::max(1l, budget_total);
	// distinct senders
	for (size_t i = pn.size(); i > 1; i--)
		std::swap(pn[i - 1], pn[(size_t) W(0, (long) i - 1)]);
	std::vector<BurstArg> args((size_t) nsend);
	long left = budget_total;
	for (int i = 0; i < nsend; i++) {
		Node *n  = pn[(size_t) i];
		long  mx = std::min((long) n->sendbuf, left - (nsend - 1 - i));
		long  k  = 1;
		if (mx > 1 && W(0, 2) == 2)
			k = W(2, std::min(mx, 6l));
		left -= k;
		args[(size_t) i].w   = &w;
		args[(size_t) i].n   = n;
		args[(size_t) i].how = draw_how(p);
		for (long j = 0; j < k; j++)
			args[(size_t) i].ids.push_back(new_msg(w, n, 0, draw_len()));
		if (k > 1)
			sim_probe("c09_burst");
	}
	if (nsend == 1) {
		burst_task(&args[0]);
	} else {
		sim_probe("c09_concurrent_senders");
		for (int i = 0; i < nsend; i++)
			sim_spawn("burst", burst_task, &args[(size_t) i], 0);
		sim_join_all();
	}
	sim_quiesce(5000000);
	for (int i = 0; i < nsend; i++)
		for (int id : args[(size_t) i].ids)
			offer(w, args[(size_t) i].n, id, 0, 0);
	settle(w);
}

static void
op_recv(World &w, Node *r, bool may_forward, int fwd_num, int fwd_den)
{
	if (r->waiter != NULL)
		return;
	int how = 0;
	if (W(0, 3) == 3 && (r->held > 0 || !r->lossy))
		how = 1;
	int      id, pipe;
	nng_msg *m = recv_once(w, r, how, &id, &pipe);
	if (m == NULL)
		return;
	if (may_forward && r->raw && W(0, fwd_den - 1) < fwd_num) {
		forward(w, r, m, pipe);
	} else {
		nng_msg_free(m);
	}
}

static void
op_async_recv(World &w, Node *r)
{
	if (r->waiter != NULL || r->lossy)
		return;
	UAio *u = new UAio();
	nng_aio_set_timeout(u->aio, NNG_DURATION_INFINITE);
	u->arm("bus_recv");
	nng_socket_recv(r->s, u->aio);
	sim_event("async recv node%d", r->idx);
	sim_quiesce(1000000);
	r->waiter = u;
	if (r->held > 0) {
		finish_waiter(w, r, true);
		r->held--;
		if (r->held == 0)
			r->pending.clear();
	} else {
		finish_waiter(w, r, false);
		sim_probe("c09_waiter_armed");
	}
}

static void
drain_node(World &w, Node *r)
{
	if (r->waiter != NULL) {
		nng_aio_cancel(r->waiter->aio);
		if (r->waiter->wait(10000000000ull) == (nng_err) -1)
			VIOL("cancel_hang", "cancelled receive never completed");
		if (r->waiter->result == 0) {
			finish_waiter(w, r, false); // reports
		}
		delete r->waiter;
		r->waiter = NULL;
	}
	for (int guard = 0; guard < 100000; guard++) {
		int      id, pipe;
		nng_msg *m = recv_once(w, r, 0, &id, &pipe);
		if (m == NULL)
			return;
		nng_msg_free(m);
	}
}

static void
paced_run(Params *p, int kind)
{
	World w;
	w.kind       = kind;
	w.nhubs      = 0;
	w.cb_unknown = 0;
	w.delivered  = 0;
	w.fanout     = 0;
	w.tr         = (int) p->draw("tr", 0, 3);
	int  n;
	long rawmix = 0;
	if (kind == K_DEVICE) {
		w.nhubs = 1 + (int) W(0, 1);
		n       = w.nhubs + 2 + (int) W(0, 2);
	} else if (kind == K_STAR) {
		n = 2 + (int) W(0, 3);
	} else {
		n      = 2 + (int) W(0, 2);
		rawmix = p->draw("rawmix", 0, 3);
	}
	for (int i = 0; i < n; i++) {
		bool raw = false;
		if (kind == K_DEVICE)
			raw = i < w.nhubs || W(0, 3) == 3;
		else if (kind == K_STAR)
			raw = i == 0 || W(0, 3) == 3;
		else
			raw = rawmix == 2 || (rawmix == 1 && W(0, 2) == 2) || (rawmix == 3 && i == 0);
		Node *nd = add_node(w, raw, W(0, 4), W(0, 4));
		nd->hub  = kind == K_DEVICE && i < w.nhubs;
	}
	// edges
	std::vector<bool> initially;
	if (kind == K_MESH) {
		long shape = W(0, 3);
		for (int i = 0; i < n; i++)
			for (int j = i + 1; j < n; j++) {
				bool flip = W(0, 1) != 0;
				add_edge(w, flip ? j : i, flip ? i : j, 10);
				initially.push_back(shape == 0 || W(0, 9) < 6);
			}
	} else if (kind == K_STAR) {
		for (int j = 1; j < n; j++) {
			bool flip = W(0, 1) != 0;
			add_edge(w, flip ? j : 0, flip ? 0 : j, 30);
			initially.push_back(W(0, 9) < 8);
		}
	} else {
		for (int j = w.nhubs; j < n; j++) {
			int h = w.nhubs == 2 ? (int) W(0, 1) : 0;
			add_edge(w, j, h, 50); // peers dial, hubs listen
			initially.push_back(W(0, 9) < 8);
		}
	}
	for (size_t i = 0; i < w.edges.size(); i++)
		if (initially[i])
			edge_bring_up(w, i, false);
	sim_quiesce(5000000);
	UAio *dev = NULL;
	long  dev_budget = 1000;
	if (kind == K_DEVICE) {
		dev = new UAio();
		dev->arm("device");
		nng_socket s2 = NNG_SOCKET_INITIALIZER;
		if (w.nhubs == 2)
			s2 = w.nodes[1]->s;
		nng_device_aio(dev->aio, w.nodes[0]->s, s2);
		sim_quiesce(1000000);
		if (dev->poll())
			h_fatal("nng_device_aio ended at once: %d", dev->result);
		for (int i = 0; i < w.nhubs; i++)
			dev_budget = std::min(dev_budget, (long) std::min(w.nodes[(size_t) i]->recvbuf, w.nodes[(size_t) i]->sendbuf));
	}
	{
		std::string d;
		for (auto nd : w.nodes)
			d += std::string(" ") + (nd->hub ? "H" : nd->raw ? "R" : "c") + std::to_string(nd->recvbuf) + "/" +
			    std::to_string(nd->sendbuf);
		sim_event("c09 kind=%d tr=%s nodes:%s edges=%zu", kind, h_tr_name(w.tr), d.c_str(), w.edges.size());
	}

	int  nops     = (int) W(4, 40);
	int  fwd_num  = kind == K_STAR ? 3 : 1;
	bool may_fwd  = kind != K_DEVICE;
	for (int op = 0; op < nops; op++) {
		std::vector<Node *> pn = plain_nodes(w);
		long kindop = W(0, 11);
		Node *r     = pn[(size_t) W(0, (long) pn.size() - 1)];
		if (kindop <= 3) {
			op_burst(w, p, dev_budget);
		} else if (kindop <= 6) {
			op_recv(w, r, may_fwd, fwd_num, 4);
		} else if (kindop == 7) {
			op_async_recv(w, r);
		} else if (kindop == 8) {
			size_t ei = (size_t) W(0, (long) w.edges.size() - 1);
			if (edge_up(w.edges[ei])) {
				int how = (int) W(0, 2);
				edge_take_down(w, ei, how, false);
				sim_probe("c09_pipe_departure");
			} else {
				edge_bring_up(w, ei, false);
				sim_probe("c09_pipe_arrival");
			}
			sim_quiesce(5000000);
		} else if (kindop <= 10) {
			// relay round: a raw node that holds something re-sends it
			Node *f = NULL;
			for (auto c : pn)
				if (c->raw && c->held > 0 && c->waiter == NULL)
					f = c;
			if (f != NULL && may_fwd)
				op_recv(w, f, true, 1, 1);
			else
				op_burst(w, p, dev_budget);
		} else {
			drain_node(w, r);
		}
	}
	sim_quiesce(5000000);
	for (auto nd : plain_nodes(w))
		drain_node(w, nd);
	if (w.cb_unknown)
		h_fatal("pipe callback could not attribute %d pipes", w.cb_unknown);
	if (w.delivered > 0)
		sim_stat("nontrivial", 1);
	sim_stat("fanout", w.fanout);
	if (dev != NULL) {
		nng_aio_cancel(dev->aio);
		if (dev->wait(20000000000ull) == (nng_err) -1)
			VIOL("cancel_hang", "cancelled device never completed");
		delete dev;
	}
	close_world(w);
}

static void
net_cfg(sim_config *cfg, Params *p)
{
	long net = p->draw("net", 0, 4);
	g_big    = net == 3 ? 150 : 3000;
	if (net == 1) {
		cfg->seg_mode = 3;
	} else if (net == 2) {
		cfg->seg_mode   = 2;
		cfg->seg_k      = 7;
		cfg->lat_min_ns = 10000;
		cfg->lat_max_ns = 2000000;
	} else if (net == 3) {
		cfg->seg_mode = 1;
		cfg->eagain_p = 0.05;
	} else if (net == 4) {
		cfg->seg_mode   = 2;
		cfg->seg_k      = 300;
		cfg->sndbuf_min = 256;
		cfg->sndbuf_max = 4096;
		cfg->lat_min_ns = 1000;
		cfg->lat_max_ns = 500000;
	}
}

static void
mesh_run(Params *p)
{
	paced_run(p, K_MESH);
}
static void
star_run(Params *p)
{
	paced_run(p, K_STAR);
}
static void
device_run(Params *p)
{
	paced_run(p, K_DEVICE);
}
// every send uses NNG_FLAG_NONBLOCK: "BUS send never blocks", so a
// non-blocking send is an ordinary send
static void
nbsend_run(Params *p)
{
	if (!p->has("nbsend"))
		p->set("nbsend", 2);
	paced_run(p, K_MESH);
}

SCENARIO(c09_mesh, "C09", net_cfg, mesh_run);
SCENARIO(c09_raw, "C09", net_cfg, star_run);
SCENARIO(c09_device, "C09", net_cfg, device_run);
SCENARIO(c09_nbsend, "C09", net_cfg, nbsend_run);

// ---------------------------------------------------------------------------
// Concurrent: senders, receivers and pipe churn all at once.  Sound oracle
// that needs no arrival instants: never its own message, never twice, only
// from a peer it has been connected to, per peer in send order, whole.
static void
conc_sender(void *a)
{
	Node  *n = (Node *) a;
	World *w = n->w;
	for (size_t i = 0; i < n->lens.size(); i++) {
		int id = new_msg(*w, n, 0, n->lens[i]);
		send_id(*w, n, id, (int) (i % 3 == 2 ? 1 : 0));
		if (W(0, 2) == 0)
			sim_sleep_ns((uint64_t) W(0, 3000) * 1000);
	}
	n->to_send = 0;
}

static void
weak_check(World &w, Node *r, nng_msg *m)
{
	int       id = identify(w, r, m);
	const Msg mm = w.msgs[(size_t) id];
	if (mm.origin == r->idx)
		VIOL("echoed_to_sender", "node%d received its own message #%u back", r->idx, mm.serial);
	if (!r->got.insert(id).second)
		VIOL("duplicate_delivery", "node%d received message origin=%u #%u twice", r->idx, mm.origin,
		    mm.serial);
	bool linked = false;
	for (auto &e : w.edges)
		if (e.ever_up && ((e.a == r->idx && e.b == mm.origin) || (e.b == r->idx && e.a == mm.origin)))
			linked = true;
	if (!linked)
		VIOL("unexpected_delivery", "node%d received origin=%u #%u but was never connected to that node",
		    r->idx, mm.origin, mm.serial);
	auto ls = r->last_serial.find(mm.origin);
	if (ls != r->last_serial.end() && mm.serial <= ls->second)
		VIOL("reordered", "node%d: from node%u serial %u arrived after %u", r->idx, mm.origin, mm.serial,
		    ls->second);
	r->last_serial[mm.origin] = mm.serial;
	if (r->raw) {
		size_t hl = nng_msg_header_len(m);
		if (hl != 4)
			sim_probe("c09_raw_header_len_not_4");
	}
	r->received++;
	w.delivered++;
	sim_stat("delivered", 1);
}

static void
conc_receiver(void *a)
{
	// no receive timeout (no periodic timer): the main task ends the loop by
	// setting stop and cancelling the receive until the task reports done
	Node  *r = (Node *) a;
	World *w = r->w;
	UAio  *u = r->waiter;
	while (!r->stop) {
		nng_aio_set_timeout(u->aio, NNG_DURATION_INFINITE);
		u->arm("bus_recv");
		nng_socket_recv(r->s, u->aio);
		u->wait(0);
		if (u->result != 0) {
			if (u->result != NNG_ECANCELED)
				VIOL("recv_error", "node%d: receive failed with %d", r->idx, u->result);
			continue;
		}
		nng_msg *m = nng_aio_get_msg(u->aio);
		weak_check(*w, r, m);
		nng_msg_free(m);
	}
	r->stop = 2;
}

static void
conc_run(Params *p)
{
	World w;
	w.kind       = K_MESH;
	w.nhubs      = 0;
	w.cb_unknown = 0;
	w.delivered  = 0;
	w.fanout     = 0;
	w.tr         = (int) p->draw("tr", 0, 3);
	int  n       = 2 + (int) W(0, 2);
	long rawmix  = p->draw("rawmix", 0, 2);
	for (int i = 0; i < n; i++)
		add_node(w, rawmix == 2 || (rawmix == 1 && W(0, 1) == 1), W(0, 4), W(0, 4));
	long shape = W(0, 3);
	std::vector<bool> initially;
	for (int i = 0; i < n; i++)
		for (int j = i + 1; j < n; j++) {
			bool flip = W(0, 1) != 0;
			add_edge(w, flip ? j : i, flip ? i : j, 70);
			initially.push_back(shape == 0 || W(0, 9) < 6);
		}
	for (size_t i = 0; i < w.edges.size(); i++)
		if (initially[i])
			edge_bring_up(w, i, false);
	sim_quiesce(5000000);
	sim_event("c09_conc tr=%s nodes=%d", h_tr_name(w.tr), n);
	int nsenders = 0;
	for (auto nd : w.nodes) {
		int cnt = W(0, 3) == 3 ? 0 : (int) W(3, 25);
		for (int i = 0; i < cnt; i++)
			nd->lens.push_back((size_t) (TAG_MIN + (W(0, 4) == 4 ? W(0, std::min(g_big, 800l)) : W(0, 60))));
		nd->to_send = cnt;
		if (cnt)
			nsenders++;
	}
	for (auto nd : w.nodes) {
		nd->waiter = new UAio();
		sim_spawn("recv", conc_receiver, nd, 0);
	}
	for (auto nd : w.nodes)
		if (nd->to_send)
			sim_spawn("send", conc_sender, nd, 0);
	int nops = (int) W(0, 6);
	for (int op = 0; op < nops; op++) {
		bool busy = false;
		for (auto nd : w.nodes)
			if (nd->to_send)
				busy = true;
		if (!busy)
			break;
		size_t ei = (size_t) W(0, (long) w.edges.size() - 1);
		if (edge_up(w.edges[ei])) {
			edge_take_down(w, ei, (int) W(0, 2), true);
			sim_probe("c09_pipe_departure");
		} else if (edge_down(w.edges[ei])) {
			edge_bring_up(w, ei, true);
			sim_probe("c09_pipe_arrival");
		}
		sim_sleep_ns((uint64_t) W(0, 3000) * 1000);
	}
	for (;;) {
		bool busy = false;
		for (auto nd : w.nodes)
			if (nd->to_send)
				busy = true;
		if (!busy)
			break;
		sim_sleep_ms(1);
	}
	sim_quiesce(5000000);
	// everything is idle now and the receivers are still waiting: one more
	// message per node must reach every peer connected at this moment
	for (auto nd : w.nodes) {
		int id = new_msg(w, nd, 0, draw_len());
		send_id(w, nd, id, 0);
		sim_quiesce(5000000);
		for (auto &e : w.edges) {
			if (!edge_up(e) || (e.a != nd->idx && e.b != nd->idx))
				continue;
			Node *r = w.nodes[(size_t) (e.a == nd->idx ? e.b : e.a)];
			if (!r->got.count(id))
				VIOL("missed_delivery",
				    "node%d sent #%u while idle and connected to node%d, whose receive was "
				    "pending, but it was not delivered",
				    nd->idx, w.msgs[(size_t) id].serial, r->idx);
			sim_stat("final_delivered", 1);
		}
	}
	for (auto nd : w.nodes) {
		nd->stop = 1;
		for (int i = 0; nd->stop != 2; i++) {
			if (i > 10000)
				VIOL("cancel_hang", "node%d: cancelled receive never completed", nd->idx);
			nng_aio_cancel(nd->waiter->aio);
			sim_sleep_ms(1);
		}
	}
	sim_join_all();
	if (w.cb_unknown)
		h_fatal("pipe callback could not attribute %d pipes", w.cb_unknown);
	if (w.delivered > 0)
		sim_stat("nontrivial", 1);
	close_world(w);
}

SCENARIO(c09_conc, "C09", net_cfg, conc_run);

// ---------------------------------------------------------------------------
// Flood over a slow network while nobody receives: send queues and receive
// queues fill.  Send must still succeed at once; what survives is whole, in
// order, not duplicated and never the sender's own.
static void
flood_run(Params *p)
{
	World w;
	w.kind       = K_MESH;
	w.nhubs      = 0;
	w.cb_unknown = 0;
	w.delivered  = 0;
	w.fanout     = 0;
	w.tr         = W(0, 1) ? TR_TCP : TR_IPC;
	int  n       = 2 + (int) W(0, 1);
	long rawmix  = p->draw("rawmix", 0, 2);
	for (int i = 0; i < n; i++)
		add_node(w, rawmix == 2 || (rawmix == 1 && W(0, 1) == 1), W(0, 4), W(1, 4));
	for (int i = 0; i < n; i++)
		for (int j = i + 1; j < n; j++) {
			bool flip = W(0, 1) != 0;
			add_edge(w, flip ? j : i, flip ? i : j, 90);
		}
	for (size_t i = 0; i < w.edges.size(); i++)
		edge_bring_up(w, i, false);
	sim_quiesce(5000000);
	int nflood = 1 + (int) W(0, n - 1);
	sim_event("c09_flood tr=%s nodes=%d flooders=%d", h_tr_name(w.tr), n, nflood);
	std::vector<BurstArg> args((size_t) nflood);
	long total = 0;
	for (int i = 0; i < nflood; i++) {
		Node *nd = w.nodes[(size_t) i];
		int   cnt = (int) W(5, 40);
		args[(size_t) i].w   = &w;
		args[(size_t) i].n   = nd;
		args[(size_t) i].how = (int) W(0, 1);
		for (int k = 0; k < cnt; k++)
			args[(size_t) i].ids.push_back(new_msg(w, nd, 0, (size_t) (TAG_MIN + W(0, 3000))));
		total += cnt * (n - 1);
	}
	if (nflood == 1) {
		burst_task(&args[0]);
	} else {
		for (int i = 0; i < nflood; i++)
			sim_spawn("flood", burst_task, &args[(size_t) i], 0);
		sim_join_all();
	}
	sim_stat("nontrivial", 1);
	// drain: first while data is still moving, then after the network is idle
	for (int round = 0; round < 2; round++) {
		for (auto r : w.nodes) {
			MUST(nng_socket_set_ms(r->s, NNG_OPT_RECVTIMEO, round == 0 ? 200 : 1));
			for (;;) {
				nng_msg *m = NULL;
				if (nng_recvmsg(r->s, &m, round == 0 ? 0 : NNG_FLAG_NONBLOCK) != 0)
					break;
				weak_check(w, r, m);
				nng_msg_free(m);
			}
		}
		if (round == 0)
			for (int i = 0; i < 200 && (simnet_inflight() != 0 || i == 0); i++)
				sim_quiesce(400000000ull);
	}
	if (w.delivered < total)
		sim_probe("c09_flood_dropped");
	if (w.delivered == 0)
		sim_probe("c09_flood_nothing_arrived");
	if (w.cb_unknown)
		h_fatal("pipe callback could not attribute %d pipes", w.cb_unknown);
	close_world(w);
}

static void
flood_cfg(sim_config *cfg, Params *p)
{
	(void) p;
	cfg->sndbuf_min = 64;
	cfg->sndbuf_max = 512;
	cfg->lat_min_ns = 50000000;
	cfg->lat_max_ns = 150000000;
	cfg->seg_mode   = 3;
}

SCENARIO(c09_flood, "C09", flood_cfg, flood_run);

} // namespace
