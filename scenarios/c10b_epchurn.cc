// C10 (second file): endpoints created and closed by application threads
// while another thread closes the socket.  No traffic at all -- the point is
// the bookkeeping between nng_socket_close and nng_dial / nng_listen /
// nng_dialer_create / nng_listener_close: "close always terminates ... and
// invalidates handles".  Many short rounds per run.
#include "../harness/util.h"

#define EP_CLOSE_BOUND_NS 10000000000ull

#define EP_BOUNDED(var, call)                                                       \
	do {                                                                        \
		Bounded bounded_guard_("C10", "close_hang", EP_CLOSE_BOUND_NS, "%s", #call); \
		var = (call);                                                       \
	} while (0)

namespace {

typedef int (*open_fn)(nng_socket *);
static const open_fn OPENERS[] = { nng_pair0_open, nng_pair1_open, nng_req0_open, nng_rep0_open, nng_pub0_open,
	nng_sub0_open, nng_push0_open, nng_pull0_open, nng_bus0_open, nng_surveyor0_open, nng_respondent0_open,
	nng_rep0_open_raw, nng_bus0_open_raw };

struct Round {
	nng_socket                s;
	int                       no;
	volatile int              go;     // the closer is about to close
	volatile int              closed; // nng_socket_close has returned
	std::vector<nng_listener> ls;
	std::vector<nng_dialer>   ds;
	std::vector<nng_listener> made_l; // created by the churn tasks and left open
	std::vector<nng_dialer>   made_d;
};

struct TaskArg {
	Round *r;
	int    idx;
	int    mode; // 0 creator, 1 closer
};

static void
creator(void *a)
{
	TaskArg *t = (TaskArg *) a;
	Round   *r = t->r;
	if (W(0, 2) != 0)
		(void) sim_wait_flag(&r->go, 50000000ull);
	sim_sleep_ns((uint64_t) W(0, 150) * 1000);
	for (int it = 0; it < 40; it++) {
		char u[64];
		snprintf(u, sizeof(u), "inproc://c10-epchurn-%d-%d-%d", r->no, t->idx, it);
		bool after = r->closed != 0;
		int  rv;
		long form = W(0, 3);
		if (form == 0) {
			nng_dialer d;
			rv = nng_dialer_create(&d, r->s, u);
			if (rv == 0) {
				(void) nng_dialer_start(d, NNG_FLAG_NONBLOCK);
				r->made_d.push_back(d);
			}
		} else if (form == 1) {
			nng_dialer d;
			rv = nng_dial(r->s, u, &d, NNG_FLAG_NONBLOCK);
			if (rv == 0)
				r->made_d.push_back(d);
		} else if (form == 2) {
			nng_listener l;
			rv = nng_listener_create(&l, r->s, u);
			if (rv == 0) {
				(void) nng_listener_start(l, 0);
				r->made_l.push_back(l);
			}
		} else {
			nng_listener l;
			rv = nng_listen(r->s, u, &l, 0);
			if (rv == 0)
				r->made_l.push_back(l);
		}
		if (rv == 0 && after)
			VIOL("closed_handle_usable", "an endpoint was created on a socket after nng_socket_close had returned");
		if (rv != 0 && rv != NNG_ECLOSED)
			VIOL("close_failed", "creating an endpoint on a socket that is open or closing returned %d (%s)", rv,
			    nng_strerror((nng_err) rv));
		if (rv != 0)
			break;
		if (W(0, 2) == 0)
			sim_sleep_ns((uint64_t) W(0, 40) * 1000);
	}
}

static void
ep_closer(void *a)
{
	TaskArg *t = (TaskArg *) a;
	Round   *r = t->r;
	if (W(0, 3) != 0)
		(void) sim_wait_flag(&r->go, 50000000ull);
	sim_sleep_ns((uint64_t) W(0, 150) * 1000);
	size_t nl = r->ls.size(), nd = r->ds.size();
	// front of the socket's list first, or last first
	bool rev = W(0, 1) != 0;
	for (size_t k = 0; k < nl + nd; k++) {
		size_t i = rev ? nl + nd - 1 - k : k;
		int    rv;
		if (i < nl)
			EP_BOUNDED(rv, nng_listener_close(r->ls[i]));
		else
			EP_BOUNDED(rv, nng_dialer_close(r->ds[i - nl]));
		if (rv != 0 && rv != NNG_ECLOSED && rv != NNG_ENOENT)
			VIOL("close_failed", "closing an endpoint returned %d", rv);
		if (W(0, 2) == 0)
			sim_sleep_ns((uint64_t) W(0, 60) * 1000);
	}
}

static void
epchurn_run(Params *p)
{
	(void) p;
	int rounds = 3 + (int) W(0, 7);
	for (int no = 0; no < rounds; no++) {
		Round r;
		r.no     = no;
		r.go     = 0;
		r.closed = 0;
		MUST(OPENERS[W(0, (long) (sizeof(OPENERS) / sizeof(OPENERS[0])) - 1)](&r.s));
		int nl = (int) W(0, 3), nd = (int) W(0, 2);
		for (int i = 0; i < nl; i++) {
			char u[64];
			snprintf(u, sizeof(u), "inproc://c10-epc-l-%d-%d", no, i);
			nng_listener l;
			MUST(nng_listener_create(&l, r.s, u));
			MUST(nng_listener_start(l, 0));
			r.ls.push_back(l);
		}
		for (int i = 0; i < nd; i++) {
			char u[64];
			snprintf(u, sizeof(u), "inproc://c10-epc-d-%d-%d", no, i);
			nng_dialer d;
			MUST(nng_dialer_create(&d, r.s, u));
			MUST(nng_dialer_start(d, NNG_FLAG_NONBLOCK));
			r.ds.push_back(d);
		}
		int     nt = 1 + (int) W(0, 2);
		TaskArg ta[3];
		for (int i = 0; i < nt; i++) {
			ta[i].r    = &r;
			ta[i].idx  = i;
			ta[i].mode = (nl + nd > 0 && W(0, 1)) ? 1 : 0;
			sim_spawn(ta[i].mode ? "epcloser" : "creator", ta[i].mode ? ep_closer : creator, &ta[i], 0);
		}
		sim_sleep_ns((uint64_t) W(0, 200) * 1000);
		int rv;
		r.go = 1;
		sim_sleep_ns((uint64_t) W(0, 100) * 1000);
		EP_BOUNDED(rv, nng_socket_close(r.s));
		r.closed = 1;
		if (rv != 0)
			VIOL("close_failed", "nng_socket_close returned %d", rv);
		sim_join_all();
		// every handle derived from the socket is gone
		for (auto l : r.ls) {
			rv = nng_listener_close(l);
			if (rv == 0)
				VIOL("closed_handle_usable", "nng_listener_close on a listener of a closed socket succeeded");
		}
		for (auto l : r.made_l) {
			rv = nng_listener_close(l);
			if (rv == 0)
				VIOL("closed_handle_usable",
				    "a listener created while the socket was closing is still open after nng_socket_close returned");
		}
		for (auto d : r.ds) {
			rv = nng_dialer_close(d);
			if (rv == 0)
				VIOL("closed_handle_usable", "nng_dialer_close on a dialer of a closed socket succeeded");
		}
		for (auto d : r.made_d) {
			rv = nng_dialer_close(d);
			if (rv == 0)
				VIOL("closed_handle_usable",
				    "a dialer created while the socket was closing is still open after nng_socket_close returned");
		}
		nng_msg *m = NULL;
		rv         = nng_recvmsg(r.s, &m, NNG_FLAG_NONBLOCK);
		if (rv != NNG_ECLOSED && rv != NNG_ENOTSUP)
			VIOL("closed_handle_usable", "nng_recvmsg on a closed socket returned %d", rv);
	}
	sim_stat("nontrivial", 1);
}
SCENARIO(c10_epchurn, "C10", NULL, epchurn_run);

} // namespace
