// C14 (second file).
//  c14_subset: sockets that register only some of the three pipe events, or
//    drop a registration while a pipe is up, still get every event they are
//    registered for: each pipe that was connected is reported REM_POST once it
//    is gone, whichever other events are (still) registered.
//  c14_churn: dialers redialing continuously while the listener they dial is
//    closed and replaced over and over; afterwards every dialer (none of them
//    was closed) gets connected again.
#include "../harness/util.h"

#include <map>
#include <set>

namespace {

struct SubMon {
	std::map<uint32_t, int> pre, post, rem;
};

static void
sub_cb(nng_pipe p, nng_pipe_ev ev, void *arg)
{
	SubMon  *m  = (SubMon *) arg;
	uint32_t id = (uint32_t) nng_pipe_id(p);
	if (ev == NNG_PIPE_EV_ADD_PRE)
		m->pre[id]++;
	else if (ev == NNG_PIPE_EV_ADD_POST)
		m->post[id]++;
	else if (ev == NNG_PIPE_EV_REM_POST)
		m->rem[id]++;
}

static void
subset_run(Params *p)
{
	nng_socket a, b;
	SubMon     mon;
	int        tr   = (int) p->draw("tr", 0, 2);
	int        mask = 1 + (int) W(0, 6); // bit0 PRE, bit1 POST, bit2 REM registered on a
	MUST(nng_pair0_open(&a));
	MUST(nng_pair0_open(&b));
	static const nng_pipe_ev evs[3] = { NNG_PIPE_EV_ADD_PRE, NNG_PIPE_EV_ADD_POST, NNG_PIPE_EV_REM_POST };
	// registration order is drawn too
	int order[3] = { 0, 1, 2 };
	for (int i = 2; i > 0; i--) {
		int j = (int) W(0, i);
		int t = order[i];
		order[i] = order[j];
		order[j] = t;
	}
	for (int i = 0; i < 3; i++)
		if (mask & (1 << order[i]))
			MUST(nng_pipe_notify(a, evs[order[i]], sub_cb, &mon));
	std::string url = h_url(tr, 61);
	MUST(nng_listen(a, url.c_str(), NULL, 0));
	MUST(nng_dial(b, url.c_str(), NULL, 0));
	sim_quiesce(20000000);
	// learn the pipe id from a message
	nng_msg *m = tag_msg(24, 1, 0, 0);
	MUST(nng_sendmsg(b, m, 0));
	MUST(nng_socket_set_ms(a, NNG_OPT_RECVTIMEO, 2000));
	nng_msg *r = NULL;
	MUST(nng_recvmsg(a, &r, 0));
	uint32_t id = (uint32_t) nng_pipe_id(nng_msg_get_pipe(r));
	nng_msg_free(r);
	sim_event("c14_subset tr=%s mask=%d pipe %u", h_tr_name(tr), mask, id);
	// optionally drop or add registrations while the pipe is up
	int now = mask;
	long chg = W(0, 3);
	if (chg == 1) { // drop the ADD events
		MUST(nng_pipe_notify(a, NNG_PIPE_EV_ADD_PRE, NULL, NULL));
		MUST(nng_pipe_notify(a, NNG_PIPE_EV_ADD_POST, NULL, NULL));
		now &= 4;
	} else if (chg == 2) { // register REM_POST only now
		MUST(nng_pipe_notify(a, NNG_PIPE_EV_REM_POST, sub_cb, &mon));
		now |= 4;
	} else if (chg == 3) { // drop everything but REM_POST, re-registering it
		MUST(nng_pipe_notify(a, NNG_PIPE_EV_ADD_PRE, NULL, NULL));
		MUST(nng_pipe_notify(a, NNG_PIPE_EV_ADD_POST, NULL, NULL));
		MUST(nng_pipe_notify(a, NNG_PIPE_EV_REM_POST, sub_cb, &mon));
		now = 4;
	}
	if ((mask & 1) && mon.pre[id] != 1)
		VIOL("event_missing", "ADD_PRE registered before the pipe was made, reported %d times", mon.pre[id]);
	if ((mask & 2) && mon.post[id] != 1)
		VIOL("event_missing", "ADD_POST registered before the pipe was made, reported %d times", mon.post[id]);
	// the pipe goes away
	long how = W(0, 2);
	if (how == 0) {
		MUST(nng_socket_close(b));
	} else if (how == 1) {
		nng_pipe pp;
		pp.id = id;
		(void) nng_pipe_close(pp);
	} else {
		MUST(nng_socket_close(a));
	}
	sim_sleep_ms(50);
	sim_quiesce(20000000);
	if ((now & 4) && mon.rem[id] != 1)
		VIOL("no_rem_post",
		    "pipe %u was connected and is gone, REM_POST is registered (events registered at first: mask %d, "
		    "change %ld while it was up) but was reported %d times",
		    id, mask, chg, mon.rem[id]);
	if (!(now & 4) && mon.rem[id] != 0)
		VIOL("event_unregistered", "REM_POST reported although it is not registered");
	sim_stat("nontrivial", 1);
	if (how != 0)
		MUST(nng_socket_close(b));
	if (how != 2)
		MUST(nng_socket_close(a));
}
SCENARIO(c14_subset, "C14", NULL, subset_run);

struct ChurnDialer {
	nng_socket s;
	int        posts; // ADD_POST seen
	int        live;
};

static void
churn_cb(nng_pipe p, nng_pipe_ev ev, void *arg)
{
	ChurnDialer *d = (ChurnDialer *) arg;
	(void) p;
	if (ev == NNG_PIPE_EV_ADD_POST) {
		d->posts++;
		d->live++;
	} else if (ev == NNG_PIPE_EV_REM_POST && d->live > 0) {
		d->live--;
	}
}

static void
churn_run(Params *p)
{
	int          tr = (int) p->draw("tr", 0, 2);
	int          k  = 2 + (int) W(0, 3);
	nng_socket   L;
	nng_listener l;
	MUST(nng_bus0_open(&L));
	std::string url = h_url(tr, 62);
	MUST(nng_listener_create(&l, L, url.c_str()));
	MUST(nng_listener_start(l, 0));
	std::vector<ChurnDialer *> ds;
	static const nng_duration rts[] = { 5, 10, 20, 40 }; // (1 ms redials starve everything else under the unfair schedulers)
	for (int i = 0; i < k; i++) {
		ChurnDialer *d = new ChurnDialer();
		d->posts = d->live = 0;
		MUST(nng_bus0_open(&d->s));
		nng_duration rt = rts[W(0, 3)];
		MUST(nng_socket_set_ms(d->s, NNG_OPT_RECONNMINT, rt));
		MUST(nng_socket_set_ms(d->s, NNG_OPT_RECONNMAXT, rt));
		MUST(nng_pipe_notify(d->s, NNG_PIPE_EV_ADD_POST, churn_cb, d));
		MUST(nng_pipe_notify(d->s, NNG_PIPE_EV_REM_POST, churn_cb, d));
		MUST(nng_dial(d->s, url.c_str(), NULL, NNG_FLAG_NONBLOCK));
		ds.push_back(d);
	}
	int rounds = (int) W(2, 16);
	sim_event("c14_churn tr=%s dialers=%d rounds=%d", h_tr_name(tr), k, rounds);
	for (int r = 0; r < rounds; r++) {
		sim_sleep_ns((uint64_t) W(200, 9000) * 1000);
		MUST(nng_listener_close(l));
		if (W(0, 1))
			sim_sleep_ns((uint64_t) W(0, 3000) * 1000);
		for (int tries = 0;; tries++) {
			int rv = nng_listener_create(&l, L, url.c_str());
			if (rv == 0)
				rv = nng_listener_start(l, 0);
			if (rv == 0)
				break;
			if (rv != NNG_EADDRINUSE || tries > 6000)
				h_fatal("relisten: %s", nng_strerror((nng_err) rv));
			(void) nng_listener_close(l);
			sim_sleep_ns(500000);
		}
	}
	// the listener stays now: every dialer must get (or keep) a connection
	uint64_t t0 = sim_now_ns(), s0 = sim_stall_total_ns();
	for (;;) {
		bool all = true;
		for (auto d : ds)
			if (d->live == 0)
				all = false;
		if (all)
			break;
		uint64_t used = sim_now_ns() - t0 - (sim_stall_total_ns() - s0);
		if (used > 1000000000ull) {
			int dead = 0;
			for (size_t i = 0; i < ds.size(); i++)
				if (ds[i]->live == 0)
					dead = (int) i;
			VIOL("redial_no_pipe",
			    "dialer %d (reconnect time <= 40 ms, never closed) has no connection 1 s after its listener "
			    "stopped being replaced (%d listener replacements, %s)",
			    dead, rounds, h_tr_name(tr));
		}
		sim_sleep_ms(5);
	}
	sim_stat("nontrivial", 1);
	for (auto d : ds) {
		MUST(nng_socket_close(d->s));
		delete d;
	}
	MUST(nng_socket_close(L));
}
SCENARIO(c14_churn, "C14", NULL, churn_run);

} // namespace
