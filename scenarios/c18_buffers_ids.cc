// C18: socket buffers are bounded FIFOs; identifiers are unique and in range.
//
//  c18_fifo_seq   sequential, quiesced: known-content resize, occupancy, FIFO
//  c18_fifo_conc  sender / receiver / resizer tasks: in-order subsequence, loss
//                 bounded by what the shrinks made not fit
//  c18_ids        live identifier monitor under concurrent open/close, wire ids
//  c18_idmap      nng_id_map against a finite-map model (single task; with and
//                 without injected allocation failures)
#include "../harness/util.h"

#include <algorithm>
#include <deque>
#include <set>

namespace {

// ---------------------------------------------------------------------------
// paths: a sender socket S, a receiver socket R, one pipe between them
struct PathKind {
	const char *name;
	int (*open_s)(nng_socket *);
	int (*open_r)(nng_socket *);
	bool raw_hdr;  // S must supply a 4-byte header with the high bit set
	bool sbuf;     // NNG_OPT_SENDBUF of S is a queue on the path
	bool rbuf;     // NNG_OPT_RECVBUF of R is a queue on the path
	bool lossless; // back-pressure instead of dropping
	int  n0;       // sends accepted with both depths 0, reader stalled (inproc)
	int  mincap;   // smallest depth the protocol's option accepts
};

// n0: committed table, measured on the unchanged tree (inproc is a rendezvous:
// one message parked in the receiver's pipe-level aio, one in the sender's)
static const PathKind PATHS[] = {
	{ "xreq-xrep", nng_req0_open_raw, nng_rep0_open_raw, true, true, true, true, 2, 0 },
	{ "pair1", nng_pair1_open, nng_pair1_open, false, true, true, true, 2, 0 },
	{ "push-pull", nng_push0_open, nng_pull0_open, false, true, false, true, 2, 0 },
	{ "pair0", nng_pair0_open, nng_pair0_open, false, true, true, true, 2, 0 },
};
#define NPATHS ((long) (sizeof(PATHS) / sizeof(PATHS[0])))

#define C18_ORIGIN 18

struct Fifo {
	const PathKind      *k;
	nng_socket           S, R;
	int                  s, r; // configured depths
	uint32_t             next_serial;
	std::deque<uint32_t> inpath; // accepted, not yet received (model)
	uint64_t             sent, rcvd;
};

static nng_msg *
mk_msg(const PathKind *k, uint32_t serial)
{
	size_t len = (size_t) W(0, 40) + TAG_MIN;
	if (W(0, 15) == 0)
		len += (size_t) W(0, 3000);
	nng_msg *m = tag_msg(len, C18_ORIGIN, 0, serial);
	if (m == NULL)
		h_fatal("tag_msg failed");
	if (k->raw_hdr)
		MUST(nng_msg_header_append_u32(m, 0x80000000u | serial));
	return m;
}

// verify a received message; returns its serial
static uint32_t
check_msg(const PathKind *k, nng_msg *m)
{
	Tag t = tag_parse((const uint8_t *) nng_msg_body(m), nng_msg_len(m));
	if (!t.ok || t.origin != C18_ORIGIN)
		VIOL("corrupt_message", "received body (%zu bytes) %s is not a message that was sent",
		    nng_msg_len(m), h_hex((const uint8_t *) nng_msg_body(m), nng_msg_len(m), 24).c_str());
	if (k->raw_hdr) {
		// xrep delivers [pipe id][request id] in the header
		size_t         hl = nng_msg_header_len(m);
		const uint8_t *h  = (const uint8_t *) nng_msg_header(m);
		uint32_t       id = 0;
		if (hl >= 4)
			id = ((uint32_t) h[hl - 4] << 24) | ((uint32_t) h[hl - 3] << 16) |
			    ((uint32_t) h[hl - 2] << 8) | h[hl - 1];
		if (hl < 4 || id != (0x80000000u | t.serial))
			VIOL("corrupt_message", "header %s does not end with the id sent with serial %u",
			    h_hex(h, hl, 16).c_str(), t.serial);
	}
	return t.serial;
}

static std::string
show_q(const std::deque<uint32_t> &q)
{
	std::string s = "[";
	char        b[16];
	for (size_t i = 0; i < q.size() && i < 40; i++) {
		snprintf(b, sizeof(b), "%s%u", i ? " " : "", q[i]);
		s += b;
	}
	if (q.size() > 40)
		s += " ..";
	return s + "]";
}

static void
fifo_open(Fifo &f, const PathKind *k, int tr, int idx, int s, int r)
{
	f.k = k;
	f.next_serial = 0;
	f.sent = f.rcvd = 0;
	f.s = s;
	f.r = r;
	MUST(k->open_s(&f.S));
	MUST(k->open_r(&f.R));
	MUST(nng_socket_set_int(f.S, NNG_OPT_SENDBUF, s));
	MUST(nng_socket_set_int(f.R, NNG_OPT_RECVBUF, r));
	std::string url = h_url(tr, idx);
	if (W(0, 1) == 0) {
		MUST(nng_listen(f.R, url.c_str(), NULL, 0));
		MUST(nng_dial(f.S, url.c_str(), NULL, 0));
	} else {
		MUST(nng_listen(f.S, url.c_str(), NULL, 0));
		MUST(nng_dial(f.R, url.c_str(), NULL, 0));
	}
	sim_quiesce(20000000);
}

// ---------------------------------------------------------------------------
// sequential scenario
#define SEQ_TMO_MS 2

static bool
seq_send(Fifo &f)
{
	sim_quiesce(1000000);
	uint32_t serial = f.next_serial;
	nng_msg *m      = mk_msg(f.k, serial);
	int      rv     = nng_sendmsg(f.S, m, 0);
	if (rv == 0) {
		f.next_serial++;
		f.inpath.push_back(serial);
		f.sent++;
		sim_event("send %u ok", serial);
		return true;
	}
	nng_msg_free(m);
	if (rv != NNG_ETIMEDOUT && rv != NNG_EAGAIN)
		h_fatal("send of %u on %s returned %d (%s)", serial, f.k->name, rv, nng_strerror((nng_err) rv));
	sim_event("send %u refused (%d)", serial, rv);
	return false;
}

// returns false when nothing could be received
static bool
seq_recv(Fifo &f, uint32_t *serial)
{
	sim_quiesce(1000000);
	nng_msg *m  = NULL;
	int      rv = nng_recvmsg(f.R, &m, 0);
	if (rv == NNG_ETIMEDOUT || rv == NNG_EAGAIN) {
		sim_event("recv: nothing");
		return false;
	}
	if (rv != 0)
		h_fatal("receive on %s returned %d (%s)", f.k->name, rv, nng_strerror((nng_err) rv));
	*serial = check_msg(f.k, m);
	nng_msg_free(m);
	f.rcvd++;
	sim_event("recv %u", *serial);
	return true;
}

// receive exactly the front of the model (no resize pending)
static bool
seq_recv_expect(Fifo &f)
{
	uint32_t got;
	if (!seq_recv(f, &got)) {
		if (!f.inpath.empty())
			VIOL("lost_message",
			    "%s: nothing can be received but %zu accepted messages %s were neither "
			    "delivered nor made not to fit by a resize",
			    f.k->name, f.inpath.size(), show_q(f.inpath).c_str());
		return false;
	}
	if (f.inpath.empty())
		VIOL("duplicate_or_spurious", "%s: received %u though every accepted message was already delivered",
		    f.k->name, got);
	uint32_t want = f.inpath.front();
	if (got != want) {
		bool later = std::find(f.inpath.begin(), f.inpath.end(), got) != f.inpath.end();
		if (!later)
			VIOL("duplicate_or_spurious", "%s: received %u again / never queued; queue is %s", f.k->name, got,
			    show_q(f.inpath).c_str());
		VIOL("reordered_or_lost", "%s: received %u but the oldest queued message is %u (no resize since); queue %s",
		    f.k->name, got, want, show_q(f.inpath).c_str());
	}
	f.inpath.pop_front();
	return true;
}

struct Resize {
	bool   on;     // this side was resized in the round
	bool   exact;  // window is exactly the queue's content
	size_t a, b;   // window [a,b) as indices into the pre-resize path
	int    oldcap, newcap;
};

static void
check_side(const Fifo &f, const char *side, const Resize &z, const std::vector<bool> &missing)
{
	size_t q = z.b - z.a, d = 0, first = 0, last = 0;
	for (size_t i = z.a; i < z.b; i++)
		if (missing[i]) {
			if (d == 0)
				first = i;
			last = i;
			d++;
		}
	if (d == 0) {
		if (z.exact && q > (size_t) z.newcap + 1)
			VIOL("resize_kept_too_many",
			    "%s %s %d->%d: queue held %zu messages and all survived: it holds more than its "
			    "depth plus the one in-flight slot",
			    f.k->name, side, z.oldcap, z.newcap, q);
		return;
	}
	if (last - first + 1 != d)
		VIOL("resize_not_contiguous",
		    "%s %s %d->%d: discarded messages at path positions %zu..%zu are not one contiguous run (%zu discarded)",
		    f.k->name, side, z.oldcap, z.newcap, first, last, d);
	if (z.exact) {
		if (first != z.a && last != z.b - 1)
			VIOL("resize_not_from_one_end",
			    "%s %s %d->%d: queue held positions %zu..%zu, discarded %zu..%zu from the middle", f.k->name,
			    side, z.oldcap, z.newcap, z.a, z.b - 1, first, last);
		size_t kept = q - d;
		size_t lo   = std::min(q, (size_t) z.newcap);
		size_t hi   = std::min(q, (size_t) z.newcap + 1);
		if (kept < lo)
			VIOL("resize_dropped_too_many",
			    "%s %s %d->%d: queue held %zu, %zu survived although %zu fit", f.k->name, side, z.oldcap,
			    z.newcap, q, kept, lo);
		if (kept > hi)
			VIOL("resize_kept_too_many",
			    "%s %s %d->%d: queue held %zu, %zu survived: more than depth plus one in-flight slot",
			    f.k->name, side, z.oldcap, z.newcap, q, kept);
		sim_probe(first == z.a ? "c18_shrink_dropped_oldest" : "c18_shrink_dropped_newest");
	} else {
		// q is only an upper bound of the content
		size_t maxd = q > (size_t) z.newcap ? q - (size_t) z.newcap : 0;
		if (d > maxd)
			VIOL("resize_dropped_too_many",
			    "%s %s %d->%d: at most %zu queued, %zu discarded although only %zu could not fit", f.k->name,
			    side, z.oldcap, z.newcap, q, d, maxd);
		sim_probe("c18_shrink_inexact_drop");
	}
}

static void
seq_round(Fifo &f, int round)
{
	const PathKind *k = f.k;
	// (1) known-empty path
	while (seq_recv_expect(f)) {
	}
	// (2) fill
	int  room  = f.s + f.r + k->n0 + 3;
	int  want  = W(0, 2) != 2 ? room : (int) W(0, room);
	bool refused = false;
	int  accepted = 0;
	for (int i = 0; i < want; i++) {
		if (!seq_send(f)) {
			refused = true;
			break;
		}
		accepted++;
	}
	int reff = k->rbuf ? f.r : 0;
	int seff = k->sbuf ? f.s : 0;
	if (refused) {
		sim_probe("c18_fill_refused");
		sim_stat("nontrivial", 1);
	}
	if (accepted > k->n0 + seff + reff)
		VIOL("holds_more_than_depth",
		    "%s: with the reader stalled %d sends were accepted; sendbuf %d + recvbuf %d + %d in-flight slots = %d",
		    k->name, accepted, seff, reff, k->n0, k->n0 + seff + reff);
	if (refused && accepted < k->n0 + seff + reff) {
		sim_probe("c18_holds_less_than_depth");
		sim_stat("shortfall", k->n0 + seff + reff - accepted);
	}
	sim_event("round %d fill: accepted %d refused %d (s=%d r=%d)", round, accepted, (int) refused, f.s, f.r);
	// (3) optionally take some out first (content no longer exactly known)
	bool exact = true;
	if (W(0, 3) == 0) {
		int kk = (int) W(1, 3);
		for (int i = 0; i < kk && !f.inpath.empty(); i++) {
			seq_recv_expect(f);
			exact = false;
		}
	}
	// (4) resize
	std::vector<uint32_t> before(f.inpath.begin(), f.inpath.end());
	size_t                n = before.size();
	Resize                zr = { false, false, 0, 0, 0, 0 }, zs = zr;
	long                  which = W(0, 7); // 0-2 R, 3-5 S, 6 both, 7 none
	bool                  doR = which <= 2 || which == 6;
	bool                  doS = (which >= 3 && which <= 6);
	sim_quiesce(1000000);
	if (doR) {
		zr.on     = true;
		zr.oldcap = f.r;
		zr.newcap = (int) W(0, 8);
		zr.a      = 0;
		zr.b      = k->rbuf ? std::min((size_t) f.r, n) : 0;
		zr.exact  = exact;
	}
	if (doS) {
		zs.on     = true;
		zs.oldcap = f.s;
		zs.newcap = (int) W(0, 8);
		zs.b      = n;
		zs.a      = n - (k->sbuf ? std::min((size_t) f.s, n) : 0);
		zs.exact  = exact && refused;
		// a receive buffer that grows lets queued messages move forward out of
		// the send buffer before it is resized: its content is then only
		// bounded by the window, not equal to it
		if (doR && zr.newcap > zr.oldcap)
			zs.exact = false;
		if (doR && zs.a < zr.b) {
			// windows overlap: cannot attribute; resize one side only
			zs.on = false;
			doS   = false;
		}
	}
	if (doR) {
		MUST(nng_socket_set_int(f.R, NNG_OPT_RECVBUF, zr.newcap));
		sim_event("resize R recvbuf %d -> %d (window %zu..%zu exact=%d)", zr.oldcap, zr.newcap, zr.a, zr.b,
		    (int) zr.exact);
		f.r = zr.newcap;
		int chk = -1;
		MUST(nng_socket_get_int(f.R, NNG_OPT_RECVBUF, &chk));
		if (chk != zr.newcap) // the statement does not cover the option's read-back
			sim_probe("c18_depth_readback_differs");
		if (doS)
			sim_quiesce(1000000); // let whatever the resize released settle first
	}
	if (doS) {
		MUST(nng_socket_set_int(f.S, NNG_OPT_SENDBUF, zs.newcap));
		sim_event("resize S sendbuf %d -> %d (window %zu..%zu exact=%d)", zs.oldcap, zs.newcap, zs.a, zs.b,
		    (int) zs.exact);
		f.s = zs.newcap;
		int chk = -1;
		MUST(nng_socket_get_int(f.S, NNG_OPT_SENDBUF, &chk));
		if (chk != zs.newcap)
			sim_probe("c18_depth_readback_differs");
	}
	if (doR || doS)
		sim_stat("nontrivial", 1);
	if ((doR && zr.b - zr.a > (size_t) zr.newcap + 1) || (doS && zs.b - zs.a > (size_t) zs.newcap + 1))
		sim_probe("c18_shrink_below_content");
	// (5) more traffic behind the resized queues: must not be lost
	std::vector<uint32_t> post;
	if (W(0, 1) == 0) {
		int m2 = (int) W(1, 4);
		for (int i = 0; i < m2; i++) {
			uint32_t ser = f.next_serial;
			if (!seq_send(f))
				break;
			post.push_back(ser);
		}
	}
	if (!doR && !doS)
		return; // plain FIFO: the next round's drain compares exactly
	// (6) drain and compare
	std::vector<uint32_t> all = before;
	all.insert(all.end(), post.begin(), post.end());
	std::vector<bool> missing(all.size(), true);
	size_t            pos = 0;
	uint32_t          got;
	while (seq_recv(f, &got)) {
		size_t j = pos;
		while (j < all.size() && all[j] != got)
			j++;
		if (j == all.size()) {
			bool earlier = std::find(all.begin(), all.end(), got) != all.end();
			VIOL(earlier ? "reordered_or_duplicate" : "duplicate_or_spurious",
			    "%s: after resize received %u which is %s; path was %s", k->name, got,
			    earlier ? "older than (or equal to) a message already delivered" : "not in the path",
			    show_q(f.inpath).c_str());
		}
		missing[j] = false;
		pos        = j + 1;
	}
	f.inpath.clear();
	for (size_t i = 0; i < all.size(); i++) {
		if (!missing[i])
			continue;
		bool inR = zr.on && i >= zr.a && i < zr.b;
		bool inS = zs.on && i >= zs.a && i < zs.b;
		if (!inR && !inS)
			VIOL("lost_message",
			    "%s: message %u (path position %zu of %zu, %zu sent after the resize) was discarded but was "
			    "not in a resized queue (R window %zu..%zu on=%d, S window %zu..%zu on=%d)",
			    k->name, all[i], i, n, post.size(), zr.a, zr.b, (int) zr.on, zs.a, zs.b, (int) zs.on);
	}
	if (zr.on)
		check_side(f, "recvbuf", zr, missing);
	if (zs.on)
		check_side(f, "sendbuf", zs, missing);
}

static void
fifo_seq_run(Params *p)
{
	Fifo            f;
	// 4 and 5 repeat the two ring implementations (msgqueue.c, lmq.c)
	const PathKind *k = &PATHS[p->draw("path", 0, NPATHS + 1) % NPATHS];
	// small initial depths leave room for resizes that reallocate
	int s = (int) (W(0, 1) ? W(0, 8) : W(0, 2)), r = (int) (W(0, 1) ? W(0, 8) : W(0, 2));
	fifo_open(f, k, TR_INPROC, 1, s, r);
	MUST(nng_socket_set_ms(f.S, NNG_OPT_SENDTIMEO, SEQ_TMO_MS));
	MUST(nng_socket_set_ms(f.R, NNG_OPT_RECVTIMEO, SEQ_TMO_MS));
	sim_event("c18_fifo_seq path=%s sendbuf=%d recvbuf=%d", k->name, s, r);
	int rounds = (int) W(1, 6);
	for (int i = 0; i < rounds; i++)
		seq_round(f, i);
	// close with messages still queued: close must release them (ledger)
	if (W(0, 1) == 0) {
		while (seq_recv_expect(f)) {
		}
	} else {
		int m3 = (int) W(0, 6);
		for (int i = 0; i < m3 && seq_send(f); i++) {
		}
		if (!f.inpath.empty())
			sim_probe("c18_close_with_queued");
	}
	if (W(0, 1)) {
		MUST(nng_socket_close(f.S));
		MUST(nng_socket_close(f.R));
	} else {
		MUST(nng_socket_close(f.R));
		MUST(nng_socket_close(f.S));
	}
}

static void
quiet_cfg(sim_config *cfg, Params *p)
{
	(void) cfg;
	(void) p;
}

SCENARIO(c18_fifo_seq, "C18", quiet_cfg, fifo_seq_run);

// ---------------------------------------------------------------------------
// nng_id_map against a finite-map model.  Single task: no interleaving is
// claimed; the simulator contributes the allocator (ledger, injected failures)
struct IdModel {
	nng_id_map                *m;
	std::map<uint64_t, void *> model;
	std::set<uint64_t>         issued; // ever returned by nng_id_alloc
	uint64_t                   lo, hi; // effective range of nng_id_alloc
	bool                       prev_valid;
	uint64_t                   prev;
	bool                       faults;
	int                        nfault;
};

static char id_vals[64];

static void *
id_val(void)
{
	return &id_vals[W(0, 63)];
}

static uint64_t
id_count_live(const IdModel &im, uint64_t a, uint64_t b) // live keys in [a,b]
{
	if (a > b)
		return 0;
	auto i0 = im.model.lower_bound(a);
	auto i1 = im.model.upper_bound(b);
	return (uint64_t) std::distance(i0, i1);
}

// full comparison through the public API: visit + get
static void
id_compare(IdModel &im, const char *when)
{
	std::map<uint64_t, void *> seen;
	uint32_t                   cursor = 0;
	uint64_t                   key;
	void                      *val;
	size_t                     guard = im.model.size() + 4;
	while (nng_id_visit(im.m, &key, &val, &cursor)) {
		if (seen.count(key))
			VIOL("visit_duplicate", "%s: visit returned key %llu twice", when, (unsigned long long) key);
		auto it = im.model.find(key);
		if (it == im.model.end())
			VIOL("visit_phantom", "%s: visit returned key %llu which is not in the map", when,
			    (unsigned long long) key);
		if (it->second != val)
			VIOL("visit_wrong_value", "%s: visit returned a wrong value for key %llu", when,
			    (unsigned long long) key);
		seen[key] = val;
		if (seen.size() > guard)
			break;
	}
	if (seen.size() != im.model.size()) {
		uint64_t miss = 0;
		for (auto &kv : im.model)
			if (!seen.count(kv.first)) {
				miss = kv.first;
				break;
			}
		VIOL("visit_missing", "%s: visit returned %zu entries, the map holds %zu (e.g. key %llu missing)", when,
		    seen.size(), im.model.size(), (unsigned long long) miss);
	}
	for (auto &kv : im.model)
		if (nng_id_get(im.m, kv.first) != kv.second)
			VIOL("get_wrong", "%s: get(%llu) does not return the value stored", when,
			    (unsigned long long) kv.first);
}

static uint64_t
id_pick_key(IdModel &im, uint64_t base)
{
	long sel = W(0, 7);
	if (sel <= 1 && !im.model.empty()) { // an existing key
		auto it = im.model.begin();
		std::advance(it, W(0, (long) im.model.size() - 1));
		return it->first;
	}
	if (sel <= 4) // keys that collide modulo every small table size
		return base + ((uint64_t) W(0, 12) << W(3, 7));
	if (sel == 5) // inside the allocation range
		return im.lo + (uint64_t) W(0, (long) std::min<uint64_t>(im.hi - im.lo, 40));
	if (sel == 6)
		return (uint64_t) W(0, 40);
	return ((uint64_t) W(0, 0x7fffffff) << 32) | (uint64_t) W(0, 0x7fffffff);
}

static void
id_op_set(IdModel &im, uint64_t key)
{
	void *v  = id_val();
	int   f0 = sim_alloc_fault_hit();
	int   rv = nng_id_set(im.m, key, v);
	bool  fl = sim_alloc_fault_hit() != f0;
	sim_event("set %llu -> %d%s", (unsigned long long) key, rv, fl ? " (alloc fault)" : "");
	if (rv == 0) {
		im.model[key] = v;
	} else {
		if (!fl)
			VIOL("set_failed", "nng_id_set(%llu) returned %d without an allocation failure",
			    (unsigned long long) key, rv);
		im.nfault++;
		sim_probe("c18_idmap_set_enomem");
		id_compare(im, "after failed set");
	}
	if (nng_id_get(im.m, key) != (im.model.count(key) ? im.model[key] : NULL))
		VIOL("get_wrong", "get(%llu) right after set (rv %d) does not match the map", (unsigned long long) key, rv);
}

static void
id_op_remove(IdModel &im, uint64_t key)
{
	bool present = im.model.count(key) != 0;
	int  rv      = nng_id_remove(im.m, key);
	sim_event("remove %llu present=%d -> %d", (unsigned long long) key, (int) present, rv);
	if (present && rv != 0)
		VIOL("remove_failed", "remove(%llu) of a present key returned %d", (unsigned long long) key, rv);
	if (!present && rv == 0)
		VIOL("remove_phantom", "remove(%llu) of an absent key returned success", (unsigned long long) key);
	im.model.erase(key);
	if (nng_id_get(im.m, key) != NULL)
		VIOL("get_wrong", "get(%llu) returns a value after remove", (unsigned long long) key);
}

static void
id_op_alloc(IdModel &im)
{
	void    *v  = id_val();
	uint64_t id = 0;
	int      f0 = sim_alloc_fault_hit();
	int      rv = nng_id_alloc(im.m, &id, v);
	bool     fl = sim_alloc_fault_hit() != f0;
	if (rv != 0) {
		sim_event("alloc -> %d%s", rv, fl ? " (alloc fault)" : "");
		uint64_t in_range = id_count_live(im, im.lo, im.hi);
		if (fl) {
			im.nfault++;
			im.prev_valid = false; // the cursor moved past an id it did not issue
			sim_probe("c18_idmap_alloc_enomem");
			id_compare(im, "after failed alloc");
		} else if (in_range > im.hi - im.lo) {
			sim_probe("c18_idmap_range_full");
		} else {
			// refuses although ids are free (it counts keys stored outside the
			// range too): not something the statement forbids
			sim_probe("c18_idmap_alloc_refused_free_ids");
		}
		return;
	}
	sim_event("alloc -> id %llu", (unsigned long long) id);
	if (id < im.lo || id > im.hi)
		VIOL("id_out_of_range", "nng_id_alloc returned %llu outside [%llu, %llu]", (unsigned long long) id,
		    (unsigned long long) im.lo, (unsigned long long) im.hi);
	if (im.model.count(id))
		VIOL("id_not_unique", "nng_id_alloc returned %llu which is in use", (unsigned long long) id);
	if (im.prev_valid && id <= im.prev) {
		sim_probe("c18_idmap_wrapped");
		uint64_t above = im.hi - im.prev;
		uint64_t live  = im.prev < im.hi ? id_count_live(im, im.prev + 1, im.hi) : 0;
		if (im.issued.count(id) && live < above)
			VIOL("id_reissued_before_wrap",
			    "nng_id_alloc reissued %llu after %llu although %llu identifiers in (%llu, %llu] were "
			    "still free: the range had not wrapped",
			    (unsigned long long) id, (unsigned long long) im.prev, (unsigned long long) (above - live),
			    (unsigned long long) im.prev, (unsigned long long) im.hi);
	} else if (im.prev_valid && id > im.prev + 1 &&
	    id_count_live(im, im.prev + 1, id - 1) < id - im.prev - 1) {
		sim_probe("c18_idmap_skipped_free_id");
	}
	if (im.issued.count(id))
		sim_probe("c18_idmap_reissued_after_wrap");
	im.issued.insert(id);
	im.model[id]  = v;
	im.prev       = id;
	im.prev_valid = true;
	if (nng_id_get(im.m, id) != v)
		VIOL("get_wrong", "get(%llu) right after alloc does not return the value", (unsigned long long) id);
}

// iterate, removing entries on the way.  "visit behave[s] as a finite map", and the documented contract of
// nng_id_visit is that entries may be removed from the map while iterating (only additions make the result
// undefined): every entry that is in the map for the whole walk is returned exactly once, nothing is returned that
// is not in the map at that moment.  (Until round 4 this was only counted; a seeding agent pointed at the
// documentation.)
static void
id_op_visit_remove(IdModel &im)
{
	std::set<uint64_t> start, visited;
	for (auto &kv : im.model)
		start.insert(kv.first);
	uint32_t cursor = 0;
	uint64_t key;
	void    *val;
	size_t   guard = start.size() + 4, n = 0;
	long     mode  = W(0, 2); // 0 remove the visited one, 1 some other, 2 mixed
	long     every = W(1, 3);
	bool     unstable = false;
	sim_event("visit+remove mode %ld every %ld over %zu entries", mode, every, start.size());
	while (nng_id_visit(im.m, &key, &val, &cursor)) {
		auto it = im.model.find(key);
		if (it == im.model.end())
			VIOL("visit_phantom", "walk with removals: visit returned key %llu which is not in the map (any more)",
			    (unsigned long long) key);
		if (it->second != val)
			VIOL("visit_wrong_value", "walk with removals: wrong value for key %llu", (unsigned long long) key);
		if (!visited.insert(key).second)
			VIOL("visit_duplicate", "walk with removals: visit returned key %llu twice", (unsigned long long) key);
		if (++n > guard)
			break;
		if ((long) n % every == 0 && !im.model.empty()) {
			uint64_t victim = key;
			if (it == im.model.end() || mode == 1 || (mode == 2 && W(0, 1))) {
				auto v = im.model.begin();
				std::advance(v, W(0, (long) im.model.size() - 1));
				victim = v->first;
			}
			id_op_remove(im, victim);
		}
	}
	(void) unstable;
	for (auto &kv : im.model)
		if (start.count(kv.first) && !visited.count(kv.first))
			VIOL("visit_missing",
			    "walk with removals (no additions): key %llu was in the map from the first to the last call of "
			    "nng_id_visit and was never returned (%zu of %zu entries returned, %zu removed on the way)",
			    (unsigned long long) kv.first, visited.size(), start.size(), start.size() - im.model.size());
}

static void
idmap_run(Params *p)
{
	IdModel im;
	im.faults     = p->i("idfault", 0) != 0;
	im.nfault     = 0;
	im.prev_valid = false;
	im.prev       = 0;
	uint64_t lo = 0, hi = 0;
	long     rk = p->draw("range", 0, 6);
	switch (rk) {
	case 0: // documented default
		lo = hi = 0;
		break;
	case 1: // tiny
		lo = (uint64_t) W(1, 20);
		hi = lo + (uint64_t) W(1, 6);
		break;
	case 2: // wraps within a run
		lo = (uint64_t) W(0, 1) ? 0x80000000ull : (uint64_t) W(1, 300);
		hi = lo + (uint64_t) W(7, 40);
		break;
	case 3: // end of the 32-bit space
		hi = 0xffffffffull;
		lo = hi - (uint64_t) W(1, 12);
		break;
	case 4: // above 32 bits
		lo = (1ull << 32) + (uint64_t) W(0, 100);
		hi = W(0, 1) ? lo + (uint64_t) W(1, 12) : UINT64_MAX;
		break;
	case 5: // end of the 64-bit space
		hi = UINT64_MAX;
		lo = hi - (uint64_t) W(1, 12);
		break;
	default:
		lo = 1;
		hi = 0x7fffffff;
		break;
	}
	int flags = W(0, 2) == 0 ? NNG_MAP_RANDOM : 0;
	im.lo = lo == 0 ? 0 : lo;
	im.hi = hi == 0 ? 0xffffffffull : hi;
	sim_alloc_enable_faults(im.faults ? 1 : 0);
	int rv = -1;
	for (int attempt = 0; attempt < 6 && rv != 0; attempt++) {
		rv = nng_id_map_alloc(&im.m, lo, hi, flags);
		if (rv != 0) {
			if (!im.faults)
				h_fatal("nng_id_map_alloc returned %d", rv);
			sim_probe("c18_idmap_create_enomem");
		}
	}
	if (rv != 0)
		return;
	sim_event("c18_idmap range=[%llu,%llu] random=%d faults=%d", (unsigned long long) lo, (unsigned long long) hi,
	    flags, (int) im.faults);
	uint64_t base = (uint64_t) W(0, 7) + (W(0, 3) == 0 ? im.lo : 0);
	int      nops = (int) W(4, 150);
	long     bias = W(0, 3); // 0 balanced, 1 grow, 2 alloc heavy, 3 churn
	for (int op = 0; op < nops; op++) {
		long k = W(0, 19);
		if (bias == 1 && k >= 10 && k < 14)
			k = 0;
		if (bias == 2 && k < 8)
			k = 8;
		if (k < 6) {
			id_op_set(im, id_pick_key(im, base));
		} else if (k < 10) {
			id_op_alloc(im);
		} else if (k < 14) {
			uint64_t key = id_pick_key(im, base);
			if (bias >= 2 && !im.model.empty() && W(0, 1)) {
				auto it = im.model.begin();
				std::advance(it, W(0, (long) im.model.size() - 1));
				key = it->first;
			}
			id_op_remove(im, key);
		} else if (k < 17) {
			uint64_t key = id_pick_key(im, base);
			void    *g   = nng_id_get(im.m, key);
			auto     it  = im.model.find(key);
			if (g != (it == im.model.end() ? NULL : it->second))
				VIOL("get_wrong", "get(%llu) returned %s, the map %s", (unsigned long long) key,
				    g ? "a value" : "NULL", it == im.model.end() ? "has no such key" : "holds another value");
		} else if (k == 17) {
			id_compare(im, "visit");
		} else if (k == 18) {
			id_op_visit_remove(im);
		} else { // drain: remove everything (shrinks the table step by step)
			int n = (int) W(0, (long) im.model.size());
			for (int i = 0; i < n && !im.model.empty(); i++) {
				auto it = im.model.begin();
				std::advance(it, W(0, (long) im.model.size() - 1));
				id_op_remove(im, it->first);
			}
		}
	}
	id_compare(im, "final");
	if (im.model.size() >= 6)
		sim_probe("c18_idmap_grew");
	sim_stat("nontrivial", 1);
	if (im.nfault)
		sim_stat("idmap_faults_survived", im.nfault);
	sim_alloc_enable_faults(0);
	nng_id_map_free(im.m);
}

static void
idmap_cfg(sim_config *cfg, Params *p)
{
	if (p->i("idfault", 0) != 0)
		cfg->fail_alloc_p = 0.02 + 0.1 * (double) F(0, 4);
}

SCENARIO(c18_idmap, "C18", idmap_cfg, idmap_run);

// ---------------------------------------------------------------------------
// concurrent buffers: sender, receiver and resizer run at the same time.
// Oracle: what is received is an in-order subsequence of what was accepted,
// unaltered, no duplicates; on back-pressure paths the number missing is at
// most what the shrinks made not fit.
static int
open_sub_all(nng_socket *s)
{
	int rv = nng_sub0_open(s);
	if (rv == 0)
		rv = nng_sub0_socket_subscribe(*s, "", 0);
	return rv;
}

static const PathKind CPATHS[] = {
	{ "xreq-xrep", nng_req0_open_raw, nng_rep0_open_raw, true, true, true, true, 0, 0 },
	{ "pair1", nng_pair1_open, nng_pair1_open, false, true, true, true, 0, 0 },
	{ "push-pull", nng_push0_open, nng_pull0_open, false, true, false, true, 0, 0 },
	{ "pair0", nng_pair0_open, nng_pair0_open, false, true, true, true, 0, 0 },
	{ "pub-sub", nng_pub0_open, open_sub_all, false, true, true, false, 0, 1 },
	{ "bus", nng_bus0_open, nng_bus0_open, false, true, true, false, 0, 1 },
};
#define NCPATHS ((long) (sizeof(CPATHS) / sizeof(CPATHS[0])))

struct Conc {
	Fifo         f;
	int          nsend;
	long         rslow, sslow;
	volatile int sender_done, stop;
	uint64_t     accepted;
	uint64_t     received;
	bool         have_last;
	uint32_t     last;
	int          resizes_inflight;
};

static void
conc_sender(void *a)
{
	Conc *c = (Conc *) a;
	Fifo &f = c->f;
	for (int i = 0; i < c->nsend; i++) {
		uint32_t serial = f.next_serial++;
		nng_msg *m      = mk_msg(f.k, serial);
		int      rv     = nng_sendmsg(f.S, m, 0);
		if (rv != 0) {
			nng_msg_free(m);
			if (rv == NNG_ETIMEDOUT)
				sim_inconclusive("send %u blocked for the whole send timeout", serial);
			h_fatal("send of %u on %s returned %d (%s)", serial, f.k->name, rv, nng_strerror((nng_err) rv));
		}
		c->accepted++;
		sim_event("send %u", serial);
		if (c->sslow && W(0, 2) == 0)
			sim_sleep_ns((uint64_t) W(0, c->sslow == 1 ? 300 : 3000) * 1000);
	}
	c->sender_done = 1;
}

static void
conc_receiver(void *a)
{
	Conc *c = (Conc *) a;
	Fifo &f = c->f;
	for (;;) {
		nng_msg *m  = NULL;
		int      rv = nng_recvmsg(f.R, &m, 0);
		if (rv == NNG_ETIMEDOUT) {
			if (c->stop)
				break;
			continue;
		}
		if (rv != 0)
			h_fatal("receive on %s returned %d (%s)", f.k->name, rv, nng_strerror((nng_err) rv));
		uint32_t serial = check_msg(f.k, m);
		nng_msg_free(m);
		sim_event("recv %u", serial);
		if (serial >= f.next_serial)
			VIOL("duplicate_or_spurious", "%s: received serial %u which was never sent", f.k->name, serial);
		if (c->have_last && serial == c->last)
			VIOL("duplicate", "%s: message %u delivered twice", f.k->name, serial);
		if (c->have_last && serial < c->last)
			VIOL("reordered_or_duplicate", "%s: message %u delivered after %u", f.k->name, serial, c->last);
		c->last      = serial;
		c->have_last = true;
		c->received++;
		if (c->rslow && W(0, 1) == 0)
			sim_sleep_ns((uint64_t) W(0, c->rslow == 1 ? 500 : 3000) * 1000);
	}
}

static void
fifo_conc_run(Params *p)
{
	Conc            c;
	const PathKind *k  = &CPATHS[p->draw("path", 0, NCPATHS - 1)];
	int             tr = (int) p->draw("tr", 0, 2);
	int             s = std::max(k->mincap, (int) W(0, 8)), r = std::max(k->mincap, (int) W(0, 8));
	fifo_open(c.f, k, tr, 2, s, r);
	MUST(nng_socket_set_ms(c.f.S, NNG_OPT_SENDTIMEO, H_TMO_MS));
	MUST(nng_socket_set_ms(c.f.R, NNG_OPT_RECVTIMEO, 20));
	c.nsend       = (int) W(5, 60);
	c.rslow       = W(0, 2);
	c.sslow       = W(0, 2);
	c.sender_done = c.stop = 0;
	c.accepted = c.received = 0;
	c.have_last        = false;
	c.last             = 0;
	c.resizes_inflight = 0;
	sim_event("c18_fifo_conc path=%s tr=%s sendbuf=%d recvbuf=%d n=%d rslow=%ld sslow=%ld", k->name, h_tr_name(tr),
	    s, r, c.nsend, c.rslow, c.sslow);
	sim_spawn("recv", conc_receiver, &c, 0);
	sim_spawn("send", conc_sender, &c, 0);
	int      nres   = (int) W(1, 12);
	uint64_t budget = 0; // messages the shrinks may have made not fit
	for (int i = 0; i < nres && !c.sender_done; i++) {
		sim_sleep_ns((uint64_t) W(0, 2000) * 1000);
		bool sideS  = W(0, 1) != 0;
		int  newcap = std::max(k->mincap, (int) W(0, 8));
		int &cur    = sideS ? c.f.s : c.f.r;
		bool onpath = sideS ? k->sbuf : k->rbuf;
		uint64_t behind = c.accepted - c.received;
		MUST(nng_socket_set_int(sideS ? c.f.S : c.f.R, sideS ? NNG_OPT_SENDBUF : NNG_OPT_RECVBUF, newcap));
		sim_event("resize %s %d -> %d (%llu accepted, not yet received)", sideS ? "sendbuf" : "recvbuf", cur,
		    newcap, (unsigned long long) behind);
		if (onpath && newcap < cur)
			budget += (uint64_t) (cur - newcap);
		if (behind > 0)
			c.resizes_inflight++;
		if (behind > 0 && newcap < cur)
			sim_probe("c18_conc_shrink_with_backlog");
		cur = newcap;
	}
	while (!c.sender_done)
		sim_sleep_ms(1);
	sim_quiesce(5000000); // below the receiver's 20 ms poll timer
	c.stop = 1;
	sim_join_all();
	uint64_t lost = c.accepted - c.received;
	sim_event("accepted %llu received %llu lost %llu budget %llu", (unsigned long long) c.accepted,
	    (unsigned long long) c.received, (unsigned long long) lost, (unsigned long long) budget);
	if (c.received > c.accepted)
		VIOL("duplicate_or_spurious", "%s: %llu received, only %llu accepted", k->name,
		    (unsigned long long) c.received, (unsigned long long) c.accepted);
	if (k->lossless && lost > budget)
		VIOL("lost_message",
		    "%s over %s: %llu of %llu accepted messages never arrived; the shrinks made at most %llu not fit",
		    k->name, h_tr_name(tr), (unsigned long long) lost, (unsigned long long) c.accepted,
		    (unsigned long long) budget);
	if (lost > 0)
		sim_probe(k->lossless ? "c18_conc_dropped_by_shrink" : "c18_conc_lossy_drop");
	if (c.resizes_inflight > 0 && c.received > 0)
		sim_stat("nontrivial", 1);
	MUST(nng_socket_close(c.f.S));
	MUST(nng_socket_close(c.f.R));
}

static void
conc_cfg(sim_config *cfg, Params *p)
{
	long net = p->draw("net", 0, 2);
	if (net == 1) {
		cfg->seg_mode = 3;
	} else if (net == 2) {
		cfg->seg_mode   = 2;
		cfg->seg_k      = 7;
		cfg->lat_min_ns = 10000;
		cfg->lat_max_ns = 1000000;
	}
}

SCENARIO(c18_fifo_conc, "C18", conc_cfg, fifo_conc_run);

// ---------------------------------------------------------------------------
// identifiers of live objects
struct IdMon {
	const char   *cls;
	std::set<int> live, ever;
	int           maxseen;
	int           issued;
};
static IdMon mon_sock = { "socket", {}, {}, 0, 0 }, mon_ctx = { "context", {}, {}, 0, 0 },
	     mon_dialer = { "dialer", {}, {}, 0, 0 }, mon_listener = { "listener", {}, {}, 0, 0 },
	     mon_pipe = { "pipe", {}, {}, 0, 0 };

static void
mon_issue(IdMon &m, int id)
{
	sim_event("%s id %d issued", m.cls, id);
	if (id <= 0) // ids are 1..0x7fffffff; anything above shows as negative
		VIOL("id_out_of_range", "%s identifier %d (0x%x) is outside 1..0x7fffffff", m.cls, id, (unsigned) id);
	if (m.live.count(id))
		VIOL("id_not_unique", "%s identifier %d issued while another live %s has it", m.cls, id, m.cls);
	if (m.ever.count(id)) {
		if (m.maxseen < 0x7fff0000)
			VIOL("id_reissued", "%s identifier %d issued again although the range (largest seen %d) has not wrapped",
			    m.cls, id, m.maxseen);
		sim_probe("c18_id_reissued_after_wrap");
	}
	m.live.insert(id);
	m.ever.insert(id);
	if (id > m.maxseen)
		m.maxseen = id;
	m.issued++;
}

static void
mon_release(IdMon &m, int id)
{
	m.live.erase(id);
}

static void
ids_pipe_cb(nng_pipe pipe, nng_pipe_ev ev, void *arg)
{
	(void) arg;
	int id = nng_pipe_id(pipe);
	if (ev == NNG_PIPE_EV_ADD_PRE)
		mon_issue(mon_pipe, id);
	else if (ev == NNG_PIPE_EV_REM_POST)
		mon_release(mon_pipe, id);
}

struct ProtoEnt {
	const char *name;
	int (*open)(nng_socket *);
	int  peer; // index of the protocol that can dial/listen to it
	bool ctx;
};
static const ProtoEnt PROTOS[] = {
	{ "pair1", nng_pair1_open, 0, false },
	{ "req", nng_req0_open, 2, true },
	{ "rep", nng_rep0_open, 1, true },
	{ "pub", nng_pub0_open, 4, false },
	{ "sub", nng_sub0_open, 3, true },
	{ "push", nng_push0_open, 6, false },
	{ "pull", nng_pull0_open, 5, false },
	{ "bus", nng_bus0_open, 7, false },
	{ "surveyor", nng_surveyor0_open, 9, true },
	{ "respondent", nng_respondent0_open, 8, true },
	{ "xreq", nng_req0_open_raw, 11, false },
	{ "xrep", nng_rep0_open_raw, 10, false },
};
#define NPROTOS ((long) (sizeof(PROTOS) / sizeof(PROTOS[0])))

struct ChSock {
	nng_socket                sock;
	int                       proto;
	std::vector<nng_ctx>      ctxs;
	std::vector<nng_dialer>   dialers;
	std::vector<nng_listener> listeners;
	std::vector<std::string>  urls; // started listeners
};

struct Churn {
	int                 me;
	int                 nops;
	int                 tr;
	std::vector<ChSock> socks;
	int                 nurl;
};

static void
churn_close_sock(ChSock &cs)
{
	// everything the socket owns stops being live when close begins
	for (auto c : cs.ctxs)
		mon_release(mon_ctx, nng_ctx_id(c));
	for (auto d : cs.dialers)
		mon_release(mon_dialer, nng_dialer_id(d));
	for (auto l : cs.listeners)
		mon_release(mon_listener, nng_listener_id(l));
	mon_release(mon_sock, nng_socket_id(cs.sock));
	sim_event("close socket %d", nng_socket_id(cs.sock));
	MUST(nng_socket_close(cs.sock));
}

static void
churn_task(void *a)
{
	Churn *ch = (Churn *) a;
	for (int op = 0; op < ch->nops; op++) {
		long k = W(0, 9);
		if (ch->socks.empty() || (k == 0 && ch->socks.size() < 4)) {
			ChSock cs;
			// mostly pair up with an existing socket so that pipes appear
			cs.proto = (int) W(0, NPROTOS - 1);
			if (!ch->socks.empty() && W(0, 2) != 0)
				cs.proto = PROTOS[ch->socks[(size_t) W(0, (long) ch->socks.size() - 1)].proto].peer;
			MUST(PROTOS[cs.proto].open(&cs.sock));
			mon_issue(mon_sock, nng_socket_id(cs.sock));
			MUST(nng_pipe_notify(cs.sock, NNG_PIPE_EV_ADD_PRE, ids_pipe_cb, NULL));
			MUST(nng_pipe_notify(cs.sock, NNG_PIPE_EV_REM_POST, ids_pipe_cb, NULL));
			ch->socks.push_back(cs);
			continue;
		}
		size_t  si = (size_t) W(0, (long) ch->socks.size() - 1);
		ChSock &cs = ch->socks[si];
		if (k <= 2) { // context
			if (!PROTOS[cs.proto].ctx)
				continue;
			nng_ctx c;
			MUST(nng_ctx_open(&c, cs.sock));
			mon_issue(mon_ctx, nng_ctx_id(c));
			cs.ctxs.push_back(c);
		} else if (k == 3) { // listener
			char url[80];
			if (ch->tr == 0)
				snprintf(url, sizeof(url), "inproc://c18ids_%d_%d", ch->me, ch->nurl++);
			else
				snprintf(url, sizeof(url), "tcp://127.0.0.1:%d", 7000 + ch->me * 100 + ch->nurl++);
			nng_listener l;
			MUST(nng_listener_create(&l, cs.sock, url));
			mon_issue(mon_listener, nng_listener_id(l));
			cs.listeners.push_back(l);
			if (W(0, 3) != 0) {
				MUST(nng_listener_start(l, 0));
				cs.urls.push_back(url);
			}
		} else if (k == 4 || k == 5) { // dialer, preferably to a compatible listener
			std::string url;
			for (auto &o : ch->socks)
				if (o.proto == PROTOS[cs.proto].peer && !o.urls.empty() && &o != &cs)
					url = o.urls[(size_t) W(0, (long) o.urls.size() - 1)];
			if (url.empty()) {
				if (W(0, 1))
					continue;
				url = ch->tr == 0 ? "inproc://c18ids_nobody" : "tcp://127.0.0.1:7999";
			}
			nng_dialer d;
			MUST(nng_dialer_create(&d, cs.sock, url.c_str()));
			mon_issue(mon_dialer, nng_dialer_id(d));
			cs.dialers.push_back(d);
			if (W(0, 3) != 0) {
				int rv = nng_dialer_start(d, NNG_FLAG_NONBLOCK);
				if (rv != 0)
					h_fatal("nng_dialer_start -> %d", rv);
			}
		} else if (k == 6) { // close a context
			if (cs.ctxs.empty())
				continue;
			size_t i = (size_t) W(0, (long) cs.ctxs.size() - 1);
			mon_release(mon_ctx, nng_ctx_id(cs.ctxs[i]));
			MUST(nng_ctx_close(cs.ctxs[i]));
			cs.ctxs.erase(cs.ctxs.begin() + (long) i);
		} else if (k == 7) { // close an endpoint
			if (!cs.dialers.empty() && W(0, 1)) {
				size_t i = (size_t) W(0, (long) cs.dialers.size() - 1);
				mon_release(mon_dialer, nng_dialer_id(cs.dialers[i]));
				MUST(nng_dialer_close(cs.dialers[i]));
				cs.dialers.erase(cs.dialers.begin() + (long) i);
			} else if (!cs.listeners.empty()) {
				size_t i = (size_t) W(0, (long) cs.listeners.size() - 1);
				mon_release(mon_listener, nng_listener_id(cs.listeners[i]));
				MUST(nng_listener_close(cs.listeners[i]));
				cs.listeners.erase(cs.listeners.begin() + (long) i);
				cs.urls.clear(); // may name the closed one: stop offering them
			}
		} else if (k == 8) { // close the socket
			churn_close_sock(cs);
			ch->socks.erase(ch->socks.begin() + (long) si);
		} else {
			sim_sleep_ns((uint64_t) W(0, 2000) * 1000);
		}
	}
	sim_sleep_ns((uint64_t) W(0, 3000) * 1000);
	for (auto &cs : ch->socks)
		churn_close_sock(cs);
	ch->socks.clear();
}

// request / survey ids as a raw peer sees them
struct Wire {
	const char             *what;
	std::map<int, uint32_t> live; // ctx index -> id of its outstanding request
	std::map<uint32_t, std::pair<int, uint32_t>> ever; // id -> (ctx, serial)
	uint32_t                maxseen;
	int                     seen;
};

static void
wire_seen(Wire &w, uint32_t id, int ctx, uint32_t serial)
{
	sim_event("%s id 0x%08x on the wire for ctx %d #%u", w.what, id, ctx, serial);
	if ((id & 0x80000000u) == 0)
		VIOL("id_out_of_range", "%s identifier 0x%08x lacks the high bit (range 0x80000000..0xffffffff)", w.what,
		    id);
	for (auto &kv : w.live)
		if (kv.first != ctx && kv.second == id)
			VIOL("id_not_unique", "%s identifier 0x%08x of context %d is also the live %s of context %d", w.what,
			    id, ctx, w.what, kv.first);
	auto it = w.ever.find(id);
	if (it != w.ever.end() && it->second != std::make_pair(ctx, serial)) {
		if (w.maxseen < 0xffff0000u)
			VIOL("id_reissued", "%s identifier 0x%08x used for ctx %d #%u and again for ctx %d #%u without a wrap",
			    w.what, id, it->second.first, it->second.second, ctx, serial);
		sim_probe("c18_id_reissued_after_wrap");
	}
	w.ever[id]  = std::make_pair(ctx, serial);
	w.live[ctx] = id;
	if (id > w.maxseen)
		w.maxseen = id;
	w.seen++;
}

static void
ids_wire(int tr, bool survey, int idx)
{
	Wire w;
	w.what    = survey ? "survey" : "request";
	w.maxseen = 0;
	w.seen    = 0;
	nng_socket C, X; // cooked client, raw peer
	MUST(survey ? nng_surveyor0_open(&C) : nng_req0_open(&C));
	MUST(survey ? nng_respondent0_open_raw(&X) : nng_rep0_open_raw(&X));
	mon_issue(mon_sock, nng_socket_id(C));
	mon_issue(mon_sock, nng_socket_id(X));
	MUST(nng_pipe_notify(C, NNG_PIPE_EV_ADD_PRE, ids_pipe_cb, NULL));
	MUST(nng_pipe_notify(C, NNG_PIPE_EV_REM_POST, ids_pipe_cb, NULL));
	MUST(nng_pipe_notify(X, NNG_PIPE_EV_ADD_PRE, ids_pipe_cb, NULL));
	MUST(nng_pipe_notify(X, NNG_PIPE_EV_REM_POST, ids_pipe_cb, NULL));
	if (survey)
		MUST(nng_socket_set_ms(C, NNG_OPT_SURVEYOR_SURVEYTIME, 30000));
	else
		MUST(nng_socket_set_ms(C, NNG_OPT_REQ_RESENDTIME, 30000));
	MUST(nng_socket_set_ms(C, NNG_OPT_SENDTIMEO, 2000));
	MUST(nng_socket_set_ms(X, NNG_OPT_RECVTIMEO, 200));
	MUST(nng_socket_set_ms(X, NNG_OPT_SENDTIMEO, 2000));
	MUST(nng_socket_set_int(X, NNG_OPT_RECVBUF, 8));
	std::string url = h_url(tr, idx);
	MUST(nng_listen(X, url.c_str(), NULL, 0));
	MUST(nng_dial(C, url.c_str(), NULL, 0));
	int                  nctx = (int) W(1, 4);
	std::vector<nng_ctx> ctxs((size_t) nctx);
	for (int i = 0; i < nctx; i++) {
		MUST(nng_ctx_open(&ctxs[(size_t) i], C));
		mon_issue(mon_ctx, nng_ctx_id(ctxs[(size_t) i]));
		if (survey)
			MUST(nng_ctx_set_ms(ctxs[(size_t) i], NNG_OPT_SURVEYOR_SURVEYTIME, 30000));
	}
	std::vector<uint32_t> serial((size_t) nctx + 1, 0);
	int                   nreq = (int) W(2, 14);
	for (int q = 0; q < nreq; q++) {
		int      ci = (int) W(0, nctx); // nctx = the socket itself
		uint32_t sn = serial[(size_t) ci]++;
		nng_msg *m  = tag_msg(TAG_MIN + (size_t) W(0, 20), C18_ORIGIN, (uint16_t) ci, sn);
		// a new request/survey on a context retires its previous identifier
		w.live.erase(ci);
		int rv = ci == nctx ? nng_sendmsg(C, m, 0) : nng_ctx_sendmsg(ctxs[(size_t) ci], m, 0);
		if (rv != 0) {
			nng_msg_free(m);
			h_fatal("%s send -> %d", w.what, rv);
		}
		nng_msg *g = NULL;
		rv         = nng_recvmsg(X, &g, 0);
		if (rv != 0)
			h_fatal("raw peer did not get the %s: %d", w.what, rv);
		// the raw peer's header is [pipe id][id the client put on the wire]
		// (followed by body words if that id lacked the end-of-backtrace bit)
		const uint8_t *h  = (const uint8_t *) nng_msg_header(g);
		size_t         hl = nng_msg_header_len(g);
		if (hl < 8)
			h_fatal("raw peer got a %s with a %zu byte header", w.what, hl);
		uint32_t id = ((uint32_t) h[4] << 24) | ((uint32_t) h[5] << 16) | ((uint32_t) h[6] << 8) | h[7];
		if ((id & 0x80000000u) == 0)
			VIOL("id_out_of_range", "%s identifier 0x%08x lacks the high bit (range 0x80000000..0xffffffff)", w.what,
			    id);
		Tag t = tag_parse((const uint8_t *) nng_msg_body(g), nng_msg_len(g));
		if (!t.ok || hl != 8)
			h_fatal("raw peer got a malformed %s (hdr %zu)", w.what, hl);
		wire_seen(w, id, (int) t.stream, t.serial);
		if (W(0, 2) == 0) { // answer: completes the request
			rv = nng_sendmsg(X, g, 0);
			if (rv != 0) {
				nng_msg_free(g);
				h_fatal("raw peer reply -> %d", rv);
			}
			if (!survey) {
				// the library retires the request id when the reply arrives
				sim_quiesce(2000000);
				w.live.erase((int) t.stream);
				nng_msg *rep = NULL;
				int      cx  = (int) t.stream;
				MUST(nng_socket_set_ms(C, NNG_OPT_RECVTIMEO, 2000));
				rv = cx == nctx ? nng_recvmsg(C, &rep, 0) : nng_ctx_recvmsg(ctxs[(size_t) cx], &rep, 0);
				if (rv == 0)
					nng_msg_free(rep);
			}
		} else {
			nng_msg_free(g);
		}
	}
	if (w.seen >= 2)
		sim_stat("nontrivial", 1);
	for (int i = 0; i < nctx; i++) {
		mon_release(mon_ctx, nng_ctx_id(ctxs[(size_t) i]));
		MUST(nng_ctx_close(ctxs[(size_t) i]));
	}
	mon_release(mon_sock, nng_socket_id(C));
	MUST(nng_socket_close(C));
	mon_release(mon_sock, nng_socket_id(X));
	MUST(nng_socket_close(X));
}

static void
ids_run(Params *p)
{
	int                tr = (int) p->draw("tr", 0, 1);
	int                nt = (int) W(1, 3);
	std::vector<Churn> ch((size_t) nt);
	for (int i = 0; i < nt; i++) {
		ch[(size_t) i].me   = i;
		ch[(size_t) i].nops = (int) W(3, 30);
		ch[(size_t) i].tr   = tr;
		ch[(size_t) i].nurl = 0;
		sim_spawn("churn", churn_task, &ch[(size_t) i], 0);
	}
	long wire = W(0, 3); // 0 requests, 1 surveys, 2 both, 3 none
	if (wire == 0 || wire == 2)
		ids_wire(tr, false, 40);
	if (wire == 1 || wire == 2)
		ids_wire(tr, true, 41);
	sim_join_all();
	sim_quiesce(5000000);
	if (mon_sock.issued >= 3 && (mon_ctx.issued + mon_dialer.issued + mon_listener.issued + mon_pipe.issued) >= 2)
		sim_stat("nontrivial", 1);
	if (mon_pipe.issued)
		sim_probe("c18_ids_pipes_seen");
	if (mon_sock.ever.size() > mon_sock.live.size() + 2)
		sim_probe("c18_ids_issue_after_release");
	sim_stat("ids_issued",
	    mon_sock.issued + mon_ctx.issued + mon_dialer.issued + mon_listener.issued + mon_pipe.issued);
}

SCENARIO(c18_ids, "C18", quiet_cfg, ids_run);

} // namespace
