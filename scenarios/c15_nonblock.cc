// C15: operations submitted with NNG_FLAG_NONBLOCK never block, do the work
// when the socket can, otherwise fail at once leaving the message with the
// caller; the poll descriptors mirror that state at quiescent points.
//
// World: node 0 ("A", any of 23 protocol kinds, listens) and 1..2 peers of
// the complementary cooked protocol (dial A).  Every node is a subject: all
// workload operations are poll-then-NONBLOCK-operation at a quiescent point.
//
// Oracle clauses (each maps to a phrase of the statement):
//  (a) nonblock_blocked            "never blocks: it completes at once"
//  (b) fd_readable_but_eagain      "if it polls readable that operation does not return NNG_EAGAIN"
//  (c) success_but_fd_not_readable "polls readable if the ... operation would succeed"
//  (d) message_altered_on_failure  "leaving the message with the caller" (+ ASan/ledger for ownership)
//  (e) eagain_when_ready           "if the socket can accept/supply a message at that moment the call does so"
//      only in states where a small message-accounting model is certain (must_send / must_recv).
// A violation of (b)/(c)/(e) whose circumstances match a finding recorded in
// known_findings.json is reported under that finding's own class (bus_nonblock_eagain,
// resp_nonblock_eagain, req_new_request_stale_recv_fd, rep_pipe_loss_stale_recv_fd,
// pair_pipe_loss_send_fd_low, msgq_resize_stale_fd, pollable_getfd_race); the test is the same.
//
// c15_nonblock: sequential histories (send, receive, timed and pending/cancelled
//   operations, contexts, buffer resizes, subscriptions, pipe/dialer/socket close,
//   redial), every NONBLOCK call at a quiescent point.
// c15_conc: a background task keeps the sockets busy while NONBLOCK calls are
//   issued without quiescence ((a) and (d) only), then a quiescent check of (b),(c).
// Parameter avoid=<mask> (AV_* below) steers the workload, never the oracle.
#include "../harness/util.h"

#include <set>

namespace {

enum Fam { F_PAIR, F_PUSH, F_PULL, F_PUB, F_SUB, F_BUS, F_REQ, F_REP, F_SURV, F_RESP };
enum { D_RECV = 0, D_SEND = 1 };

struct KindInfo {
	const char *name;
	int (*open)(nng_socket *);
	Fam  fam;
	bool raw;  // raw mode socket
	bool msgq; // implemented on the generic upper message queues
	int  peer; // kind index of the (cooked) peer
	bool ctx;  // supports contexts
};

// index 0 is the simplest choice
static const KindInfo KINDS[] = {
	/* 0*/ { "pair0", nng_pair0_open, F_PAIR, false, false, 0, false },
	/* 1*/ { "pair1", nng_pair1_open, F_PAIR, false, false, 1, false },
	/* 2*/ { "push", nng_push0_open, F_PUSH, false, false, 3, false },
	/* 3*/ { "pull", nng_pull0_open, F_PULL, false, false, 2, false },
	/* 4*/ { "pub", nng_pub0_open, F_PUB, false, false, 5, false },
	/* 5*/ { "sub", nng_sub0_open, F_SUB, false, false, 4, true },
	/* 6*/ { "bus", nng_bus0_open, F_BUS, false, false, 6, false },
	/* 7*/ { "req", nng_req0_open, F_REQ, false, false, 8, true },
	/* 8*/ { "rep", nng_rep0_open, F_REP, false, false, 7, true },
	/* 9*/ { "surveyor", nng_surveyor0_open, F_SURV, false, false, 10, true },
	/*10*/ { "respondent", nng_respondent0_open, F_RESP, false, false, 9, true },
	/*11*/ { "pair0_raw", nng_pair0_open_raw, F_PAIR, true, false, 0, false },
	/*12*/ { "pair1_raw", nng_pair1_open_raw, F_PAIR, true, false, 1, false },
	/*13*/ { "pair1_poly", nng_pair1_open_poly, F_PAIR, false, true, 1, false },
	/*14*/ { "push_raw", nng_push0_open_raw, F_PUSH, true, false, 3, false },
	/*15*/ { "pull_raw", nng_pull0_open_raw, F_PULL, true, false, 2, false },
	/*16*/ { "pub_raw", nng_pub0_open_raw, F_PUB, true, false, 5, false },
	/*17*/ { "sub_raw", nng_sub0_open_raw, F_SUB, true, true, 4, false },
	/*18*/ { "bus_raw", nng_bus0_open_raw, F_BUS, true, false, 6, false },
	/*19*/ { "req_raw", nng_req0_open_raw, F_REQ, true, true, 8, false },
	/*20*/ { "rep_raw", nng_rep0_open_raw, F_REP, true, true, 7, false },
	/*21*/ { "surveyor_raw", nng_surveyor0_open_raw, F_SURV, true, true, 10, false },
	/*22*/ { "respondent_raw", nng_respondent0_open_raw, F_RESP, true, true, 9, false },
};
static const int NKINDS = (int) (sizeof(KINDS) / sizeof(KINDS[0]));

static bool
fam_can(Fam f, int dir)
{
	if (dir == D_SEND)
		return f != F_PULL && f != F_SUB;
	return f != F_PUSH && f != F_PUB;
}

// body: 'C' '1' '5' node ep rt_node rt_ep 0 serial(4) rt_serial(4)
struct Body {
	int      node, ep, rt_node, rt_ep;
	int      epoch; // connectivity epoch of the world when the message was made
	uint32_t serial, rt_serial;
};
static const size_t BODY_LEN = 16;

static void
body_put(uint8_t *b, const Body &x)
{
	b[0] = 'C';
	b[1] = '1';
	b[2] = '5';
	b[3] = (uint8_t) x.node;
	b[4] = (uint8_t) x.ep;
	b[5] = (uint8_t) x.rt_node;
	b[6] = (uint8_t) x.rt_ep;
	b[7] = (uint8_t) x.epoch;
	for (int i = 0; i < 4; i++) {
		b[8 + i]  = (uint8_t) (x.serial >> (24 - 8 * i));
		b[12 + i] = (uint8_t) (x.rt_serial >> (24 - 8 * i));
	}
}
static bool
body_get(const uint8_t *b, size_t n, Body *x)
{
	if (n != BODY_LEN || b[0] != 'C' || b[1] != '1' || b[2] != '5')
		return false;
	x->node      = b[3];
	x->ep        = b[4];
	x->rt_node   = b[5];
	x->rt_ep     = b[6];
	x->epoch     = b[7];
	x->serial    = 0;
	x->rt_serial = 0;
	for (int i = 0; i < 4; i++) {
		x->serial    = (x->serial << 8) | b[8 + i];
		x->rt_serial = (x->rt_serial << 8) | b[12 + i];
	}
	return true;
}

struct Ep {
	bool     is_ctx    = false;
	nng_ctx  ctx       = NNG_CTX_INITIALIZER;
	int      avail     = 0; // lower bound: messages a receive on this endpoint can get
	int      debt      = 0; // messages received before the model had counted their arrival
	int      cap       = 0; // SUB: queue capacity of this endpoint
	bool     cur_valid = false; // REQ/SURVEYOR (cooked): outstanding request/survey
	uint32_t cur_serial = 0;
	uint64_t cur_expire_ms = 0; // SURVEYOR
	uint64_t t_submit_ms   = 0; // when the last send on this endpoint was handed to the library
	bool     has_req = false;   // REP/RESPONDENT: request received, not yet answered
	int      rq_node = 0, rq_ep = 0, rq_epoch = -1, rq_epoch_used = -1;
	uint32_t rq_serial = 0;
	std::vector<uint8_t> rq_hdr; // raw REP/RESPONDENT: header to route the reply
	UAio    *pend     = NULL;    // pending asynchronous operation
	int      pend_dir = 0;
	Body     pend_body;
	std::set<std::string> topics; // SUB
};

struct Node {
	int        idx  = 0;
	int        kind = 0;
	nng_socket s    = NNG_SOCKET_INITIALIZER;
	bool       open = false;
	std::vector<Ep> eps;
	int        fd[2]      = { -1, -1 }; // -1 not asked yet, -2 unavailable
	int        fdmode     = 0;
	std::set<uint32_t> pipes;           // maintained by pipe callbacks
	int        out_unrecv = 0; // upper bound: messages sent, not yet received by a peer application
	uint32_t   serial     = 0;
	nng_dialer dialer     = NNG_DIALER_INITIALIZER;
	bool       dialing    = false;
	int        recv_cap   = 0; // RECVBUF as read back
	int        survey_ms  = 0;
	int        send_cap   = 0;
	// history facts quoted in violation details (known_findings.json keys on them)
	bool       h_pipe_lost = false, h_unsub = false, h_resend = false, h_fd_busy = false, h_resized = false;
	const KindInfo &ki() const { return KINDS[kind]; }
	Fam fam() const { return KINDS[kind].fam; }
};

struct World {
	std::vector<Node *> nodes;
	bool        fuzzy = false; // connectivity changed since the last resync: model (e) is off
	int         epoch = 0;     // bumped on every connectivity change (mod 256 in message bodies)
	int         avoid = 0; // bit mask (AV_*): workload steers around behaviours listed in known_findings.json
	std::string url;
	int         tr = 0;
	int         checks = 0;
};

// One bit per entry of known_findings.json; clear a bit in lib/plans.py once the
// library no longer shows that behaviour and the state behind it is explored too.
enum {
	AV_MSGQ        = 1,   // msgq based sockets refuse every zero-timeout operation
	AV_RESP_SEND   = 2,   // RESPONDENT send refused
	AV_SURV_RECV   = 4,   // SURVEYOR receive waits for the survey deadline
	AV_SUB_UNSUB   = 8,   // SUB unsubscribe leaves the descriptor raised
	AV_REQ_RESEND  = 16,  // REQ new request leaves the descriptor raised
	AV_PAIR_LOSS   = 32,  // PAIR pipe loss lowers the send descriptor despite buffer room
	AV_REP_LOSS    = 64,  // REP/RESPONDENT pipe loss leaves the receive descriptor raised
	AV_BUS_SEND    = 128, // BUS send refused
	AV_FD_RACE     = 256, // descriptor created concurrently with a readiness change stays out of step
	AV_MSGQ_RESIZE = 512, // msgq resize does not refresh the descriptors
};

// the workload started something (send, async operation, disconnect, dial) since the last quiescent point
static bool g_dirty = false;
static int  g_epoch = 0; // mirror of World::epoch for make_msg

static const uint64_t NB_LIMIT_NS = 50000000ull; // generous: a non-blocking call costs microseconds

static void
pipe_cb(nng_pipe p, nng_pipe_ev ev, void *arg)
{
	Node *n = (Node *) arg;
	if (ev == NNG_PIPE_EV_ADD_POST)
		n->pipes.insert((uint32_t) nng_pipe_id(p));
	else if (ev == NNG_PIPE_EV_REM_POST) {
		// also pipes the protocol had started but that were refused before ADD_POST
		n->pipes.erase((uint32_t) nng_pipe_id(p));
		n->h_pipe_lost = true;
	}
}

static const char *
errname(int rv)
{
	switch (rv) {
	case 0:
		return "ok";
	case NNG_EAGAIN:
		return "EAGAIN";
	case NNG_ESTATE:
		return "ESTATE";
	case NNG_ENOTSUP:
		return "ENOTSUP";
	case NNG_ETIMEDOUT:
		return "ETIMEDOUT";
	case NNG_ECANCELED:
		return "ECANCELED";
	case NNG_ECLOSED:
		return "ECLOSED";
	case NNG_ECONNRESET:
		return "ECONNRESET";
	case NNG_EPROTO:
		return "EPROTO";
	default:
		return nng_strerror((nng_err) rv);
	}
}

// ---------------------------------------------------------------- model ---
static int
npeers_connected(World &w)
{
	int n = 0;
	for (size_t i = 1; i < w.nodes.size(); i++)
		if (w.nodes[i]->open && w.nodes[i]->pipes.size() == 1)
			n++;
	return n;
}

// everything that is open is connected exactly as the topology intends
static bool
topology_settled(World &w)
{
	int open_peers = 0;
	for (size_t i = 1; i < w.nodes.size(); i++) {
		Node *b = w.nodes[i];
		if (!b->open)
			continue;
		open_peers++;
		if (b->pipes.size() != 1)
			return false;
	}
	Node *a = w.nodes[0];
	if (a->fam() == F_PAIR && !a->ki().msgq) // one-to-one: a second peer is refused
		return open_peers == 1 && a->pipes.size() == 1;
	return (int) a->pipes.size() == open_peers;
}

// endpoint whose counter represents what a receive on (n, epi) can get
static Ep &
inbox(Node &n, int epi)
{
	switch (n.fam()) {
	case F_SUB:
	case F_REQ:
	case F_SURV:
		if (!n.ki().raw)
			return n.eps[(size_t) epi];
		return n.eps[0];
	default:
		return n.eps[0];
	}
}

static bool
topic_match(const Ep &e, const uint8_t *body, size_t len)
{
	for (auto &t : e.topics)
		if (t.size() <= len && memcmp(t.data(), body, t.size()) == 0)
			return true;
	return false;
}

// count one arrival for e, at most up to cap; an arrival that was already
// consumed (completion of the send observed after the receive) pays the debt
static void
credit(Ep &e, int cap)
{
	if (e.debt > 0) {
		e.debt--;
		return;
	}
	if (e.avail < cap)
		e.avail++;
}

static void
model_arrive(World &w, Node &x, Node &t, const Body &b)
{
	uint8_t raw[BODY_LEN];
	body_put(raw, b);
	bool lossy_src = x.ki().msgq && x.fam() == F_PAIR; // poly: tryput, may drop
	switch (t.fam()) {
	case F_SUB:
		if (t.ki().raw) {
			credit(t.eps[0], t.recv_cap);
		} else {
			for (auto &e : t.eps)
				if (topic_match(e, raw, BODY_LEN))
					credit(e, e.cap);
		}
		break;
	case F_BUS:
		credit(t.eps[0], t.recv_cap);
		break;
	case F_REQ:
		if (t.ki().raw) {
			credit(t.eps[0], 1 << 20);
		} else if (b.rt_node == t.idx && b.rt_ep < (int) t.eps.size()) {
			Ep &e = t.eps[(size_t) b.rt_ep];
			if (e.cur_valid && e.cur_serial == b.rt_serial)
				credit(e, 1);
		}
		break;
	case F_SURV:
		if (t.ki().raw) {
			credit(t.eps[0], 1 << 20);
		} else if (b.rt_node == t.idx && b.rt_ep < (int) t.eps.size()) {
			Ep &e = t.eps[(size_t) b.rt_ep];
			if (e.cur_valid && e.cur_serial == b.rt_serial && sim_now_ms() + 10 < e.cur_expire_ms)
				credit(e, 128);
		}
		break;
	case F_RESP: // surveys are best effort towards a respondent that does not read
		credit(t.eps[0], 1);
		break;
	case F_REP:
	case F_PULL:
		credit(t.eps[0], 1 << 20);
		break;
	case F_PAIR:
		credit(t.eps[0], lossy_src ? 1 : 1 << 20);
		break;
	default:
		break;
	}
}

// a send by (x, e) was accepted by the library
static void
model_send_ok(World &w, Node &x, Ep &e, const Body &b, bool was_req, int rq_node)
{
	Fam f = x.fam();
	if (f == F_PAIR || f == F_PUSH || f == F_REQ)
		x.out_unrecv++;
	if (w.fuzzy || !topology_settled(w)) {
		if ((f == F_REP || f == F_RESP) && was_req)
			x.out_unrecv++;
		return;
	}
	std::vector<Node *> targets;
	Node *a = w.nodes[0];
	if (f == F_REP || f == F_RESP) {
		if (!was_req || e.rq_epoch_used != w.epoch)
			return; // the pipe the request arrived on may be gone
		Node *t = w.nodes[(size_t) rq_node];
		if (t->open && (x.idx != 0 ? t == a : true))
			targets.push_back(t);
	} else if (x.idx != 0) {
		targets.push_back(a);
	} else if (f == F_PUB || f == F_BUS || f == F_SURV) {
		for (size_t i = 1; i < w.nodes.size(); i++)
			if (w.nodes[i]->open)
				targets.push_back(w.nodes[i]);
	} else if (npeers_connected(w) == 1) {
		for (size_t i = 1; i < w.nodes.size(); i++)
			if (w.nodes[i]->open)
				targets.push_back(w.nodes[i]);
	}
	for (Node *t : targets) {
		if ((f == F_REP || f == F_RESP)) {
			// counts as in flight only if the requester will hand it to its application
			bool taken = t->ki().raw;
			if (!taken && b.rt_ep < (int) t->eps.size()) {
				Ep &te = t->eps[(size_t) b.rt_ep];
				taken  = te.cur_valid && te.cur_serial == b.rt_serial && (t->fam() == F_SURV || te.avail == 0);
			}
			if (taken)
				x.out_unrecv++;
		}
		model_arrive(w, x, *t, b);
	}
	(void) e;
}

static void
model_send_attempt(Node &x, Ep &e, int rv, uint32_t serial)
{
	e.rq_epoch_used = e.has_req ? e.rq_epoch : -1;
	if (x.ki().raw)
		return;
	switch (x.fam()) {
	case F_REQ:
		if (!e.is_ctx && (e.cur_valid || e.avail > 0))
			x.h_resend = true; // a new request while the previous exchange was open
		e.avail     = 0;
		e.debt      = 0;
		e.cur_valid = rv == 0;
		e.cur_serial = serial;
		break;
	case F_SURV:
		e.avail      = 0;
		e.debt       = 0;
		e.cur_valid  = rv == 0;
		e.cur_serial = serial;
		e.cur_expire_ms = e.t_submit_ms + (uint64_t) x.survey_ms; // the survey clock starts at submission
		break;
	case F_REP:
	case F_RESP:
		e.has_req = false;
		break;
	default:
		break;
	}
}

// an asynchronous send has been submitted: the previous exchange is over right now
static void
model_send_begin(Node &x, Ep &e)
{
	e.t_submit_ms = sim_now_ms();
	if (x.ki().raw)
		return;
	if (x.fam() == F_REQ || x.fam() == F_SURV) {
		if (x.fam() == F_REQ && !e.is_ctx && (e.cur_valid || e.avail > 0))
			x.h_resend = true;
		e.avail = e.debt = 0;
		e.cur_valid      = false;
	}
}

static void
model_recv_ok(World &w, Node &y, int epi, nng_msg *m)
{
	Body b;
	if (!body_get((const uint8_t *) nng_msg_body(m), nng_msg_len(m), &b) || b.node >= (int) w.nodes.size())
		h_fatal("node %d received a body that was never sent: %s", y.idx,
		    h_hex((const uint8_t *) nng_msg_body(m), nng_msg_len(m)).c_str());
	Ep &in = inbox(y, epi);
	if (in.avail > 0)
		in.avail--;
	else
		in.debt++;
	Node *x = w.nodes[(size_t) b.node];
	if (x->out_unrecv > 0)
		x->out_unrecv--;
	Ep &e = y.eps[(size_t) epi];
	if (y.fam() == F_REP || y.fam() == F_RESP) {
		e.has_req   = true;
		e.rq_node   = b.node;
		e.rq_ep     = b.ep;
		e.rq_serial = b.serial;
		e.rq_epoch  = b.epoch;
		e.rq_hdr.assign((uint8_t *) nng_msg_header(m), (uint8_t *) nng_msg_header(m) + nng_msg_header_len(m));
	}
	if (y.fam() == F_REQ && !y.ki().raw)
		e.cur_valid = false;
}

static bool
any_pending(Node &n, int dir)
{
	for (auto &e : n.eps)
		if (e.pend != NULL && e.pend_dir == dir)
			return true;
	return false;
}

// "the socket can accept a message at that moment", only where that is certain
static bool
must_send(World &w, Node &x, int epi)
{
	Ep &e = x.eps[(size_t) epi];
	if (any_pending(x, D_SEND))
		return false;
	Fam f = x.fam();
	if (f == F_PUB || f == F_BUS)
		return true; // best effort protocols accept always
	if (f == F_SURV)
		return true; // a survey is sent (or discarded) regardless of the peers
	if (w.fuzzy || !topology_settled(w))
		return false;
	switch (f) {
	case F_PAIR:
	case F_PUSH:
	case F_REQ:
		return x.pipes.size() >= 1 && x.out_unrecv == 0;
	case F_REP:
	case F_RESP:
		if (x.ki().raw)
			return true; // routed or discarded, the socket takes it
		return e.has_req && x.out_unrecv == 0;
	default:
		return false;
	}
}

static bool
must_recv(World &w, Node &y, int epi)
{
	if (w.fuzzy)
		return false;
	if (any_pending(y, D_RECV))
		return false;
	Ep &in = inbox(y, epi);
	if (y.fam() == F_SURV && !y.ki().raw && !(sim_now_ms() + 10 < in.cur_expire_ms))
		return false;
	return in.avail >= 1;
}

// ------------------------------------------------------------- plumbing ---
static nng_msg *
make_msg(Node &x, int epi, Body *bo)
{
	Ep  &e = x.eps[(size_t) epi];
	Body b;
	b.node      = x.idx;
	b.ep        = epi;
	b.epoch     = g_epoch;
	b.serial    = ++x.serial;
	b.rt_node   = e.has_req ? e.rq_node : 0xff;
	b.rt_ep     = e.has_req ? e.rq_ep : 0;
	b.rt_serial = e.has_req ? e.rq_serial : 0;
	nng_msg *m  = NULL;
	MUST(nng_msg_alloc(&m, BODY_LEN));
	body_put((uint8_t *) nng_msg_body(m), b);
	if (x.ki().raw) {
		switch (x.fam()) {
		case F_PAIR:
			if (x.kind == 12) // pair1 raw wants a hop count
				MUST(nng_msg_header_append_u32(m, 0));
			break;
		case F_REQ:
		case F_SURV:
			MUST(nng_msg_header_append_u32(m, 0x80000000u | b.serial));
			break;
		case F_REP:
		case F_RESP:
			if (e.has_req && !e.rq_hdr.empty())
				MUST(nng_msg_header_append(m, e.rq_hdr.data(), e.rq_hdr.size()));
			break;
		default:
			break;
		}
	}
	*bo = b;
	return m;
}

// quiet: the library is known to be quiescent (or the socket has no pipe yet), so
// creating the descriptor cannot overlap a readiness change of this socket
static int
get_fd(Node &n, int dir, bool quiet = true)
{
	if (n.fd[dir] == -1) {
		if (!quiet)
			n.h_fd_busy = true;
		int fd = -1;
		int rv = dir == D_SEND ? nng_socket_get_send_poll_fd(n.s, &fd) : nng_socket_get_recv_poll_fd(n.s, &fd);
		if (rv == 0) {
			n.fd[dir] = fd;
			sim_event("n%d %s fd=%d", n.idx, dir == D_SEND ? "send" : "recv", fd);
		} else {
			n.fd[dir] = -2;
			if (rv != NNG_ENOTSUP)
				sim_probe("c15_getfd_error");
		}
	}
	return n.fd[dir];
}

static void
read_caps(Node &n)
{
	int v = 0;
	if (nng_socket_get_int(n.s, NNG_OPT_RECVBUF, &v) == 0)
		n.recv_cap = v;
	else
		n.recv_cap = 0;
	if (nng_socket_get_int(n.s, NNG_OPT_SENDBUF, &v) == 0)
		n.send_cap = v;
	else
		n.send_cap = 0;
	if (n.fam() == F_SUB && !n.ki().raw)
		n.eps[0].cap = n.recv_cap;
}

static void
open_node(World &w, Node &n)
{
	MUST(n.ki().open(&n.s));
	n.open = true;
	n.pipes.clear();
	n.fd[0] = n.fd[1] = -1;
	n.eps.clear();
	n.eps.resize(1);
	MUST(nng_pipe_notify(n.s, NNG_PIPE_EV_ADD_POST, pipe_cb, &n));
	MUST(nng_pipe_notify(n.s, NNG_PIPE_EV_REM_POST, pipe_cb, &n));
	if (n.fam() == F_SURV && !n.ki().raw) {
		n.survey_ms = W(0, 5) == 5 ? 60 : 5000;
		MUST(nng_socket_set_ms(n.s, NNG_OPT_SURVEYOR_SURVEYTIME, n.survey_ms));
	}
	if (n.fam() == F_REQ && !n.ki().raw && W(0, 1) == 0)
		MUST(nng_socket_set_ms(n.s, NNG_OPT_REQ_RESENDTIME, NNG_DURATION_INFINITE));
	long sb = W(0, 3);
	if (sb != 0)
		(void) nng_socket_set_int(n.s, NNG_OPT_SENDBUF, (int) sb - 1);
	long rb = W(0, 3);
	if (rb != 0)
		(void) nng_socket_set_int(n.s, NNG_OPT_RECVBUF, (int) rb - 1);
	read_caps(n);
	if (n.fam() == F_SUB && !n.ki().raw && W(0, 3) != 3) {
		MUST(nng_sub0_socket_subscribe(n.s, "", 0));
		n.eps[0].topics.insert("");
	}
	n.fdmode = (int) W(0, 2);
	if (n.fdmode == 1) {
		(void) get_fd(n, D_RECV);
		(void) get_fd(n, D_SEND);
	}
	sim_event("open n%d %s sendbuf=%ld recvbuf=%ld(cap %d) fdmode=%d", n.idx, n.ki().name, sb - 1, rb - 1,
	    n.recv_cap, n.fdmode);
}

static void
add_ctx(World &w, Node &n)
{
	if (!n.ki().ctx || n.eps.size() > 1)
		return;
	Ep e;
	e.is_ctx = true;
	if (nng_ctx_open(&e.ctx, n.s) != 0)
		return;
	if (n.fam() == F_SUB) {
		int v = 0;
		if (nng_ctx_get_int(e.ctx, NNG_OPT_RECVBUF, &v) == 0)
			e.cap = v;
		if (W(0, 3) != 3) {
			MUST(nng_sub0_ctx_subscribe(e.ctx, "", 0));
			e.topics.insert("");
		}
	}
	n.eps.push_back(e);
	sim_event("ctx n%d", n.idx);
	(void) w;
}

// process a finished asynchronous operation
static void
finish_async(World &w, Node &n, int epi, UAio *u, int dir, const Body &sb, bool was_req, int rq_node)
{
	int rv = u->result;
	if (dir == D_RECV) {
		if (rv == 0) {
			nng_msg *m = nng_aio_get_msg(u->aio);
			model_recv_ok(w, n, epi, m);
			nng_msg_free(m);
		} else if ((n.fam() == F_REQ || n.fam() == F_SURV) && !n.ki().raw) {
			// a receive that was started and then aborted may end the exchange
			n.eps[(size_t) epi].cur_valid = false;
			n.eps[(size_t) epi].avail     = 0;
		}
	} else {
		model_send_attempt(n, n.eps[(size_t) epi], rv, sb.serial);
		if (rv == 0) {
			model_send_ok(w, n, n.eps[(size_t) epi], sb, was_req, rq_node);
		} else {
			nng_msg *m = nng_aio_get_msg(u->aio);
			if (m != NULL)
				nng_msg_free(m);
			nng_aio_set_msg(u->aio, NULL);
		}
	}
	sim_event("async %s n%d ep%d -> %s", dir == D_SEND ? "send" : "recv", n.idx, epi, errname(rv));
}

static void
reap(World &w)
{
	// completed sends first: a send completes before the receive it feeds
	for (int pass = D_SEND; pass >= D_RECV; pass--)
	for (Node *n : w.nodes) {
		if (!n->open)
			continue;
		for (size_t i = 0; i < n->eps.size(); i++) {
			Ep &e = n->eps[i];
			if (e.pend != NULL && e.pend_dir == pass && e.pend->poll()) {
				UAio *u = e.pend;
				e.pend  = NULL;
				// a pending send used the request state at submission
				finish_async(w, *n, (int) i, u, e.pend_dir, e.pend_body, e.pend_body.rt_node != 0xff,
				    e.pend_body.rt_node);
				delete u;
				sim_probe("c15_pending_completed");
			}
		}
	}
}

static void
settle(World &w)
{
	sim_quiesce(3000000);
	g_dirty = false;
	reap(w);
}

static void
cancel_pending(World &w, Node &n, int epi)
{
	Ep &e = n.eps[(size_t) epi];
	if (e.pend == NULL)
		return;
	nng_aio_cancel(e.pend->aio);
	e.pend->wait(0);
	sim_probe("c15_pending_cancelled");
	reap(w);
}

static void
submit(Node &n, int epi, int dir, UAio *u, nng_msg *m)
{
	Ep &e = n.eps[(size_t) epi];
	u->arm(dir == D_SEND ? "c15_send" : "c15_recv");
	g_dirty = true;
	if (dir == D_SEND)
		model_send_begin(n, e);
	if (dir == D_SEND) {
		nng_aio_set_msg(u->aio, m);
		if (epi == 0)
			nng_socket_send(n.s, u->aio);
		else
			nng_ctx_send(e.ctx, u->aio);
	} else {
		if (epi == 0)
			nng_socket_recv(n.s, u->aio);
		else
			nng_ctx_recv(e.ctx, u->aio);
	}
}

// blocking-with-timeout variant (not a subject of the property; builds state)
static int
timed_op(World &w, Node &n, int epi, int dir, int ms)
{
	settle(w);
	Ep &e = n.eps[(size_t) epi];
	if (e.pend != NULL)
		return -1;
	UAio     u;
	Body     b;
	nng_msg *m       = NULL;
	bool     was_req = e.has_req;
	int      rq_node = e.rq_node;
	b.serial = 0;
	if (dir == D_SEND)
		m = make_msg(n, epi, &b);
	nng_aio_set_timeout(u.aio, ms);
	submit(n, epi, dir, &u, m);
	u.wait(0);
	finish_async(w, n, epi, &u, dir, b, was_req, rq_node);
	return u.result;
}

static std::string
hist(const Node &n)
{
	char b[200];
	snprintf(b, sizeof(b), " [history of this socket: pipe_lost=%d unsub=%d resend=%d fd_created_while_busy=%d buf_resized=%d]",
	    (int) n.h_pipe_lost, (int) n.h_unsub, (int) n.h_resend, (int) n.h_fd_busy, (int) n.h_resized);
	return b;
}

// ---------------------------------------------------------------- oracle ---
// returns the result of the non-blocking operation
static int
nb_op(World &w, Node &n, int epi, int dir)
{
	Ep &e = n.eps[(size_t) epi];
	if (epi == 0 && n.fdmode != 2 && n.fd[dir] == -1) {
		// create the descriptor now: either at a quiescent point, or (unless avoided)
		// while the library may still be working on this socket
		bool quiet = !g_dirty || (w.avoid & AV_FD_RACE) != 0 || W(0, 1) == 0;
		if (quiet)
			settle(w);
		(void) get_fd(n, dir, quiet);
	}
	settle(w); // quiescent point; nobody else can run until we call into the library
	int      readable = -1;
	if (epi == 0 && n.fd[dir] >= 0)
		readable = simnet_poll_in(n.fd[dir]);
	bool     must = dir == D_SEND ? must_send(w, n, epi) : must_recv(w, n, epi);
	Body     b;
	nng_msg *m = NULL, *rm = NULL;
	uint8_t  body0[BODY_LEN];
	size_t   hlen0   = 0;
	bool     was_req = e.has_req;
	int      rq_node = e.rq_node;
	if (dir == D_SEND) {
		m = make_msg(n, epi, &b);
		memcpy(body0, nng_msg_body(m), BODY_LEN);
		hlen0 = nng_msg_header_len(m);
	}
	if (dir == D_SEND)
		e.t_submit_ms = sim_now_ms();
	uint64_t t0 = sim_now_ns(), s0 = sim_stall_total_ns(), k0 = sim_block_count();
	int      rv;
	if (dir == D_SEND)
		rv = epi == 0 ? nng_sendmsg(n.s, m, NNG_FLAG_NONBLOCK) : nng_ctx_sendmsg(e.ctx, m, NNG_FLAG_NONBLOCK);
	else
		rv = epi == 0 ? nng_recvmsg(n.s, &rm, NNG_FLAG_NONBLOCK) : nng_ctx_recvmsg(e.ctx, &rm, NNG_FLAG_NONBLOCK);
	uint64_t t1 = sim_now_ns(), s1 = sim_stall_total_ns(), k1 = sim_block_count();
	uint64_t dt = (t1 - t0) > (s1 - s0) ? (t1 - t0) - (s1 - s0) : 0;
	const char *dn = dir == D_SEND ? "send" : "recv";
	const char *kn = n.ki().name;
	sim_event("nb_%s n%d(%s) ep%d fd_readable=%d must=%d -> %s (%llu us)", dn, n.idx, kn, epi, readable, (int) must,
	    errname(rv), (unsigned long long) (dt / 1000));
	w.checks++;
	if (k1 != k0)
		sim_probe(rv == 0 ? "c15_descheduled_in_ok_call" : "c15_descheduled_in_failed_call");

	// (a) never blocks
	if (dt > NB_LIMIT_NS)
		VIOL("nonblock_blocked",
		    "%s on %s%s: NNG_FLAG_NONBLOCK call took %llu ms of virtual time (stalls excluded) and returned %s",
		    dn, kn, epi ? " ctx" : "", (unsigned long long) (dt / 1000000), errname(rv));
	// (d) on failure the message is still the caller's, unchanged
	if (dir == D_SEND && rv != 0) {
		if (nng_msg_len(m) != BODY_LEN || memcmp(nng_msg_body(m), body0, BODY_LEN) != 0)
			VIOL("message_altered_on_failure", "%s on %s%s failed with %s but the message body was changed", dn,
			    kn, epi ? " ctx" : "", errname(rv));
		if (nng_msg_header_len(m) != hlen0)
			sim_probe("c15_header_changed_on_failed_send");
		nng_msg_free(m); // a second owner shows up as ASan double free / ledger imbalance
		m = NULL;
	}
	if (dir == D_RECV && rv != 0 && rm != NULL)
		VIOL("message_with_error", "%s on %s failed with %s but returned a message", dn, kn, errname(rv));
	// A violation whose circumstances match a finding recorded in known_findings.json is
	// reported under that finding's own class; everything else keeps the clause's class.
	// (The clauses themselves are the same for every protocol and every history.)
	Fam  fam      = n.fam();
	bool cooked   = !n.ki().raw && !n.ki().msgq;
	const char *cls_b = "fd_readable_but_eagain", *cls_c = "success_but_fd_not_readable", *cls_e = "eagain_when_ready";
	if (fam == F_BUS && dir == D_SEND)
		cls_b = cls_e = "bus_nonblock_eagain"; // bus0_sock_send starts (and has refused) the aio although it never waits
	else if (fam == F_RESP && cooked && dir == D_SEND)
		cls_b = cls_e = "resp_nonblock_eagain"; // resp0_ctx_send starts the aio before it knows it must wait
	else if (fam == F_REQ && cooked && dir == D_RECV && n.h_resend)
		cls_b = "req_new_request_stale_recv_fd"; // reply discarded by a new request, readable not cleared
	else if ((fam == F_REP || fam == F_RESP) && cooked && dir == D_RECV && n.h_pipe_lost)
		cls_b = "rep_pipe_loss_stale_recv_fd"; // pipe holding the unread request closed, readable not cleared
	else if (fam == F_PAIR && !n.ki().msgq && dir == D_SEND && n.h_pipe_lost)
		cls_c = "pair_pipe_loss_send_fd_low"; // pipe_stop clears writable although the send buffer has room
	else if (n.ki().msgq && n.h_resized)
		cls_b = cls_c = "msgq_resize_stale_fd"; // nni_msgq_resize does not refresh the pollables
	else if (n.h_fd_busy)
		cls_b = cls_c = "pollable_getfd_race"; // descriptor created while raise/clear ran concurrently
	// The premise of (b), (c) and (e) is "the library is quiescent" between the poll and the call.  sim_quiesce
	// promises that nothing happens within its horizon (3 ms) - unless the calling thread itself is stalled for
	// longer than that inside the call (injected stalls are up to 20 ms): timers and segments that were due
	// later than the horizon then do fire "during" the call.  Seen once in 260 000 runs of a thorough pass with base
	// seed 4242 (a redialed connection came up inside the stalled send; replay kept in open/).  Nothing is judged then.
	if (s1 != s0) {
		sim_probe("c15_stalled_inside_call");
		readable = -1;
		must     = false;
	}
	// (b) no busy loop
	if (readable == 1 && rv == NNG_EAGAIN)
		VIOL(cls_b,
		    "%s on %s: library quiescent, %s descriptor polls readable, but the non-blocking %s returned NNG_EAGAIN%s",
		    dn, kn, dn, dn, hist(n).c_str());
	// (c) no missed wake-up
	if (readable == 0 && rv == 0)
		VIOL(cls_c,
		    "%s on %s: library quiescent, %s descriptor did not poll readable, yet the non-blocking %s succeeded%s",
		    dn, kn, dn, dn, hist(n).c_str());
	// (e) does the work when it can
	if (must && rv != 0)
		VIOL(rv == NNG_EAGAIN ? cls_e : "failed_when_ready",
		    "%s on %s%s: the socket can %s a message at this quiescent point (model: pipes=%zu "
		    "in_flight_from_here=%d available=%d) but the non-blocking call returned %s%s",
		    dn, kn, epi ? " ctx" : "", dir == D_SEND ? "accept" : "supply", n.pipes.size(), n.out_unrecv,
		    inbox(n, epi).avail, errname(rv), hist(n).c_str());
	if (must)
		sim_probe(dir == D_SEND ? "c15_must_send_checked" : "c15_must_recv_checked");
	if (readable == 1 && rv == 0)
		sim_probe(dir == D_SEND ? "c15_send_fd_ready_ok" : "c15_recv_fd_ready_ok");
	if (readable == 0 && rv == NNG_EAGAIN)
		sim_probe(dir == D_SEND ? "c15_send_fd_idle_eagain" : "c15_recv_fd_idle_eagain");
	if (readable == 1 && rv != 0)
		sim_probe("c15_fd_ready_state_error");
	if (rv == 0 || readable >= 0)
		sim_stat("nontrivial", 1);

	if (dir == D_SEND) {
		model_send_attempt(n, e, rv, b.serial);
		if (rv == 0)
			model_send_ok(w, n, e, b, was_req, rq_node);
	} else if (rv == 0) {
		model_recv_ok(w, n, epi, rm);
		nng_msg_free(rm);
	}
	if (rv == 0)
		g_dirty = true;
	return rv;
}

// Avoid mode (avoid=1) steers the WORKLOAD around behaviours of the unchanged
// library that are listed in known_findings.json, so that the rest of the state
// space stays reachable; it never changes an oracle.  Decisions may look at the
// descriptors (they are workload decisions, not checks).
static int
fd_says(Node &n, int dir)
{
	int fd = get_fd(n, dir);
	return fd >= 0 ? simnet_poll_in(fd) : -1;
}

static int // 0 no, 1 use the timed variant, 2 skip
known_bad(World &w, Node &n, int epi, int dir)
{
	if (!w.avoid)
		return 0;
	const KindInfo &k = n.ki();
	if ((w.avoid & AV_MSGQ) && k.msgq)
		return 1; // msgq: zero timeout refused before looking at the queue
	if ((w.avoid & AV_RESP_SEND) && k.fam == F_RESP && !k.raw && dir == D_SEND)
		return 1; // aio started (and refused) before looking at the pipe
	if ((w.avoid & AV_BUS_SEND) && k.fam == F_BUS && dir == D_SEND)
		return 1; // aio started (and refused) although nothing can wait
	if ((w.avoid & AV_SURV_RECV) && k.fam == F_SURV && !k.raw && dir == D_RECV &&
	    (inbox(n, epi).avail == 0 || w.fuzzy))
		return 1; // waits for the survey deadline
	if ((w.avoid & AV_REQ_RESEND) && k.fam == F_REQ && !k.raw && dir == D_SEND && epi == 0 &&
	    fd_says(n, D_RECV) == 1)
		return 2; // a new request discards the reply but leaves the descriptor raised
	if ((w.avoid & AV_PAIR_LOSS) && k.fam == F_PAIR && !k.msgq && dir == D_SEND && n.send_cap > 0 &&
	    n.h_pipe_lost)
		return 1; // losing the pipe lowers the descriptor although the send buffer has room
	return 0;
}

// avoid mode: is a disconnect in this state one of the documented stale-descriptor cases?
static bool
disconnect_hazard(World &w)
{
	if (!(w.avoid & AV_REP_LOSS))
		return false;
	for (Node *n : w.nodes) {
		if (!n->open)
			continue;
		// readable left raised when the pipe holding an unread request goes away
		if ((n->fam() == F_REP || n->fam() == F_RESP) && !n->ki().raw && fd_says(*n, D_RECV) == 1)
			return true;
	}
	return false;
}

static int
do_op(World &w, Node &n, int epi, int dir)
{
	if (n.eps[(size_t) epi].pend != NULL && n.eps[(size_t) epi].pend_dir == dir)
		return -1;
	if (w.avoid)
		settle(w); // decide on the state the operation will really meet
	switch (known_bad(w, n, epi, dir)) {
	case 1:
		sim_probe("c15_avoided_known");
		return timed_op(w, n, epi, dir, 15);
	case 2:
		sim_probe("c15_avoided_known");
		return -1;
	default:
		return nb_op(w, n, epi, dir);
	}
}

// drain everything; when a whole pass finds nothing and the topology is as
// intended the model is exact again
static void
resync(World &w)
{
	sim_event("resync");
	// a websocket that is being closed lingers for up to 100 ms waiting for the peer's close frame
	// (closeaio in websocket.c): until then the old pipe still counts as the PAIR peer and a new
	// connection is refused, so the topology is not what the pipe events of the other side suggest
	if (w.tr == TR_WS && w.fuzzy)
		sim_sleep_ms(150);
	for (Node *n : w.nodes)
		if (n->open)
			for (size_t i = 0; i < n->eps.size(); i++)
				cancel_pending(w, *n, (int) i);
	bool clean = false;
	for (int pass = 0; pass < 6 && !clean; pass++) {
		int got = 0;
		for (Node *n : w.nodes) {
			if (!n->open || !fam_can(n->fam(), D_RECV))
				continue;
			for (size_t i = 0; i < n->eps.size(); i++) {
				for (int k = 0; k < 12; k++) {
					if (do_op(w, *n, (int) i, D_RECV) != 0)
						break;
					got++;
				}
			}
		}
		clean = got == 0;
	}
	settle(w);
	if (clean && topology_settled(w)) {
		for (Node *n : w.nodes) {
			n->out_unrecv = 0;
			for (auto &e : n->eps)
				e.avail = e.debt = 0;
		}
		w.fuzzy = false;
		sim_probe("c15_resynced");
	}
}

static void
dial(World &w, Node &b)
{
	if (b.dialing)
		return;
	int rv = nng_dial(b.s, w.url.c_str(), &b.dialer, W(0, 3) == 3 ? NNG_FLAG_NONBLOCK : 0);
	if (rv != 0) {
		// a blocking dial may fail (listener gone / refused); retry in the background
		MUST(nng_dial(b.s, w.url.c_str(), &b.dialer, NNG_FLAG_NONBLOCK));
	}
	b.dialing = true;
}

static void
close_node(World &w, Node &n)
{
	for (size_t i = 0; i < n.eps.size(); i++)
		cancel_pending(w, n, (int) i);
	for (size_t i = 1; i < n.eps.size(); i++)
		MUST(nng_ctx_close(n.eps[i].ctx));
	MUST(nng_socket_close(n.s));
	n.open    = false;
	n.dialing = false;
	n.pipes.clear();
	n.eps.clear();
	n.eps.resize(1);
	n.out_unrecv = 0;
}

static void
nb_run(Params *p)
{
	World w;
	g_dirty = false;
	g_epoch = 0;
	w.avoid  = (int) p->i("avoid", 0);
	int kind = (int) p->draw("kind", 0, NKINDS - 1);
	int npeer = 1 + (int) (W(0, 3) == 3);
	// ws is left out of the draw: closing a ws dialer/pipe under load trips transport
	// defects that belong to other properties (use tr=3 to include it)
	w.tr      = (int) p->draw("tr", 0, 2);
	w.url     = h_url(w.tr, 15);
	for (int i = 0; i <= npeer; i++) {
		Node *n = new Node();
		n->idx  = i;
		n->kind = i == 0 ? kind : KINDS[kind].peer;
		w.nodes.push_back(n);
	}
	Node &a = *w.nodes[0];
	open_node(w, a);
	MUST(nng_listen(a.s, w.url.c_str(), NULL, 0));
	for (int i = 1; i <= npeer; i++) {
		open_node(w, *w.nodes[(size_t) i]);
		dial(w, *w.nodes[(size_t) i]);
	}
	sim_quiesce(20000000);
	sim_event("c15 kind=%s peers=%d tr=%s avoid=%d settled=%d", a.ki().name, npeer, h_tr_name(w.tr), (int) w.avoid,
	    (int) topology_settled(w));
	w.fuzzy = !topology_settled(w);

	int nops = (int) W(3, 40);
	for (int op = 0; op < nops; op++) {
		long   sel = W(0, 19);
		Node  &n   = *w.nodes[(size_t) W(0, npeer)];
		if (!n.open) {
			// only thing to do with a closed peer is to bring it back
			open_node(w, n);
			dial(w, n);
			w.fuzzy = true, g_dirty = true, w.epoch = g_epoch = (w.epoch + 1) & 0xff;
			sim_quiesce(20000000);
			sim_probe("c15_reopened");
			continue;
		}
		int epi = n.eps.size() > 1 ? (int) W(0, 1) : 0;
		if (sel <= 9) {
			// the checked operation; mostly in a direction the protocol has
			int dir = (int) W(0, 1);
			if (!fam_can(n.fam(), dir) && W(0, 7) != 7)
				dir = 1 - dir;
			// now and then a burst in one direction, to fill (or drain) the queues behind it
			int reps = W(0, 5) == 5 ? (int) W(2, 6) : 1;
			for (int k = 0; k < reps && n.open; k++)
				(void) do_op(w, n, epi, dir);
		} else if (sel == 10) { // timed (blocking) variant
			int dir = (int) W(0, 1);
			if (!fam_can(n.fam(), dir))
				dir = 1 - dir;
			if (w.avoid)
				settle(w);
			if (known_bad(w, n, epi, dir) == 2)
				continue;
			(void) timed_op(w, n, epi, dir, (int) W(1, 30));
		} else if (sel == 11) { // leave an operation pending / cancel it
			Ep &e = n.eps[(size_t) epi];
			if (e.pend != NULL) {
				settle(w);
				cancel_pending(w, n, epi);
			} else {
				int dir = (int) W(0, 1);
				if (!fam_can(n.fam(), dir))
					dir = 1 - dir;
				settle(w);
				if (known_bad(w, n, epi, dir) == 2)
					continue;
				nng_msg *m = NULL;
				e.pend_body.rt_node = 0xff;
				if (dir == D_SEND)
					m = make_msg(n, epi, &e.pend_body);
				UAio *u = new UAio();
				nng_aio_set_timeout(u->aio, NNG_DURATION_INFINITE);
				e.pend     = u;
				e.pend_dir = dir;
				sim_event("pending %s n%d ep%d", dir == D_SEND ? "send" : "recv", n.idx, epi);
				submit(n, epi, dir, u, m);
				sim_probe("c15_pending_started");
			}
		} else if (sel == 12 || sel == 13) { // buffer resize
			settle(w);
			bool rcv = W(0, 1) == 0;
			int  v   = (int) W(0, 4);
			int  old = n.recv_cap;
			if ((w.avoid & AV_MSGQ_RESIZE) && n.ki().msgq) {
				sim_probe("c15_avoided_known");
				continue;
			}
			int  rv  = nng_socket_set_int(n.s, rcv ? NNG_OPT_RECVBUF : NNG_OPT_SENDBUF, v);
			if (rv == 0)
				n.h_resized = true;
			sim_event("resize n%d %s=%d -> %s", n.idx, rcv ? "recvbuf" : "sendbuf", v, errname(rv));
			int oldsc = n.send_cap;
			if (rv == 0)
				read_caps(n);
			if (!rcv && rv == 0 && n.send_cap < oldsc) {
				// messages queued for sending may have been dropped: nobody can count on them
				for (Node *o : w.nodes)
					for (auto &oe : o->eps)
						oe.avail = 0;
			}
			if (rcv && rv == 0) {
				if (n.recv_cap < old)
					for (auto &e : n.eps)
						if (!e.is_ctx)
							e.avail = 0; // whatever was queued may have been dropped
			}
			sim_probe("c15_resize");
		} else if (sel == 14) { // context
			if (n.eps.size() == 1) {
				settle(w); // completions observed so far concern the endpoints that existed
				add_ctx(w, n);
			}
		} else if (sel == 15) { // late descriptor creation
			if (n.fdmode == 2) {
				int dir = (int) W(0, 1);
				if (n.fd[dir] == -1) {
					settle(w);
					(void) get_fd(n, dir);
					sim_probe("c15_late_fd");
				}
			}
		} else if (sel == 16) { // subscriptions
			if (n.fam() == F_SUB && !n.ki().raw) {
				static const char *TOP[] = { "", "C15", "C15\x01", "X" };
				static const size_t TLEN[] = { 0, 3, 4, 1 };
				long        ti = W(0, 3);
				std::string t(TOP[ti], TLEN[ti]);
				Ep         &e = n.eps[(size_t) epi];
				settle(w);
				if (e.topics.count(t)) {
					if ((w.avoid & AV_SUB_UNSUB) && epi == 0 && fd_says(n, D_RECV) == 1) {
						sim_probe("c15_avoided_known");
						continue;
					}
					int rv = epi == 0 ? nng_sub0_socket_unsubscribe(n.s, t.data(), t.size())
					                  : nng_sub0_ctx_unsubscribe(e.ctx, t.data(), t.size());
					sim_event("unsubscribe n%d ep%d %s -> %s", n.idx, epi, h_hex((const uint8_t *) t.data(), t.size()).c_str(),
					    errname(rv));
					e.topics.erase(t);
					if (epi == 0)
						n.h_unsub = true;
					if (!e.topics.count("") && !e.topics.count("C15"))
						e.avail = 0; // purged
					sim_probe("c15_unsubscribe");
				} else {
					int rv = epi == 0 ? nng_sub0_socket_subscribe(n.s, t.data(), t.size())
					                  : nng_sub0_ctx_subscribe(e.ctx, t.data(), t.size());
					sim_event("subscribe n%d ep%d %s -> %s", n.idx, epi, h_hex((const uint8_t *) t.data(), t.size()).c_str(),
					    errname(rv));
					if (rv == 0)
						e.topics.insert(t);
				}
			}
		} else if (sel == 17) { // disconnect
			long how = W(0, 2);
			settle(w);
			if (disconnect_hazard(w)) {
				sim_probe("c15_avoided_known");
				continue;
			}
			if (how == 0 && !n.pipes.empty()) {
				nng_pipe pp;
				memset(&pp, 0, sizeof(pp));
				pp.id = *n.pipes.begin();
				sim_event("pipe_close n%d pipe=%u", n.idx, pp.id);
				(void) nng_pipe_close(pp);
				sim_probe("c15_pipe_closed");
			} else if (how == 1 && n.idx != 0 && n.dialing) {
				sim_event("dialer_close n%d", n.idx);
				(void) nng_dialer_close(n.dialer);
				n.dialing = false;
				sim_probe("c15_dialer_closed");
			} else if (n.idx != 0) {
				sim_event("close n%d", n.idx);
				close_node(w, n);
				sim_probe("c15_peer_closed");
			} else {
				continue;
			}
			w.fuzzy = true, g_dirty = true, w.epoch = g_epoch = (w.epoch + 1) & 0xff;
		} else if (sel == 18) { // let timers run (redial), or dial again
			if (n.idx != 0 && !n.dialing) {
				sim_event("redial n%d", n.idx);
				dial(w, n);
				w.fuzzy = true, g_dirty = true, w.epoch = g_epoch = (w.epoch + 1) & 0xff;
			} else {
				sim_event("sleep");
				sim_sleep_ms((uint64_t) W(1, 200));
			}
		} else {
			resync(w);
		}
	}
	// final sweep: every node, every direction it has, once more at a quiescent point
	for (Node *n : w.nodes) {
		if (!n->open)
			continue;
		for (int dir = 0; dir < 2; dir++)
			if (fam_can(n->fam(), dir))
				(void) do_op(w, *n, 0, dir);
	}
	sim_stat("checks", w.checks);
	for (size_t i = w.nodes.size(); i-- > 0;)
		if (w.nodes[i]->open)
			close_node(w, *w.nodes[i]);
	for (Node *n : w.nodes)
		delete n;
}

static void
nb_cfg(sim_config *cfg, Params *p)
{
	long net = p->draw("net", 0, 3);
	if (net == 1) {
		cfg->seg_mode = 3;
	} else if (net == 2) {
		cfg->seg_mode   = 2;
		cfg->seg_k      = 7;
		cfg->lat_min_ns = 10000;
		cfg->lat_max_ns = 1500000;
	} else if (net == 3) {
		cfg->seg_mode = 1;
		cfg->eagain_p = 0.05;
	}
}

SCENARIO(c15_nonblock, "C15", nb_cfg, nb_run);

// ---------------------------------------------------------------------------
// Concurrent histories: a peer task keeps the sockets busy with timed
// operations while the main task issues NONBLOCK operations without waiting
// for quiescence.  During that phase only the clauses that hold at any time
// are asserted: (a) never blocks, (d) message left with the caller.  Then all
// tasks stop and the descriptor clauses are checked at the final quiescent
// point, i.e. after an arbitrary concurrent history.
struct ConcArg {
	World       *w;
	Node        *n;
	int          iters;
	volatile int stop;
};

static void
conc_note_send(Node &n, int rv)
{
	if (n.fam() == F_REQ && !n.ki().raw) {
		Ep &e = n.eps[0];
		if (e.cur_valid)
			n.h_resend = true;
		e.cur_valid = rv == 0;
	}
}

static void
conc_note_recv(Node &n, int rv)
{
	if (n.fam() == F_REQ && !n.ki().raw && rv == 0)
		n.eps[0].cur_valid = false;
}

static void
conc_keep_request(Node &n, nng_msg *m)
{
	Body b;
	if ((n.fam() == F_REP || n.fam() == F_RESP) && body_get((const uint8_t *) nng_msg_body(m), nng_msg_len(m), &b)) {
		Ep &e = n.eps[0];
		e.has_req   = true;
		e.rq_node   = b.node;
		e.rq_ep     = b.ep;
		e.rq_serial = b.serial;
		e.rq_hdr.assign((uint8_t *) nng_msg_header(m), (uint8_t *) nng_msg_header(m) + nng_msg_header_len(m));
	}
}

static void
conc_peer_task(void *a)
{
	ConcArg *ca = (ConcArg *) a;
	Node    &n  = *ca->n;
	UAio     u;
	for (int i = 0; i < ca->iters && !ca->stop; i++) {
		int dir = (int) W(0, 1);
		if (!fam_can(n.fam(), dir))
			dir = 1 - dir;
		Body     b;
		nng_msg *m = dir == D_SEND ? make_msg(n, 0, &b) : NULL;
		nng_aio_set_timeout(u.aio, (nng_duration) W(1, 20));
		submit(n, 0, dir, &u, m);
		u.wait(0);
		if (dir == D_SEND) {
			conc_note_send(n, u.result);
			if (u.result != 0) {
				nng_msg *back = nng_aio_get_msg(u.aio);
				if (back != NULL)
					nng_msg_free(back);
				nng_aio_set_msg(u.aio, NULL);
			}
		} else {
			conc_note_recv(n, u.result);
			if (u.result == 0) {
				nng_msg *r = nng_aio_get_msg(u.aio);
				conc_keep_request(n, r);
				nng_msg_free(r);
			}
		}
		if (W(0, 3) == 0)
			sim_sleep_ns((uint64_t) W(0, 2000) * 1000);
	}
}

static void
conc_run(Params *p)
{
	World w;
	w.avoid  = (int) p->i("avoid", 0);
	w.fuzzy  = true; // no message accounting here: clause (e) only where it needs none
	int kind = (int) p->draw("kind", 0, NKINDS - 1);
	w.tr     = (int) p->draw("tr", 0, 2);
	w.url    = h_url(w.tr, 16);
	for (int i = 0; i < 2; i++) {
		Node *n = new Node();
		n->idx  = i;
		n->kind = i == 0 ? kind : KINDS[kind].peer;
		w.nodes.push_back(n);
	}
	Node &a = *w.nodes[0], &b = *w.nodes[1];
	open_node(w, a);
	MUST(nng_listen(a.s, w.url.c_str(), NULL, 0));
	open_node(w, b);
	dial(w, b);
	sim_quiesce(20000000);
	sim_event("c15_conc kind=%s tr=%s", a.ki().name, h_tr_name(w.tr));
	// who is driven by the background task: the peer, or A itself
	bool    swap = W(0, 2) == 2;
	ConcArg ca;
	ca.w     = &w;
	ca.n     = swap ? &a : &b;
	ca.iters = (int) W(3, 30);
	ca.stop  = 0;
	sim_spawn("c15_peer", conc_peer_task, &ca, 0);
	int iters = (int) W(3, 40);
	for (int i = 0; i < iters; i++) {
		Node &n   = *w.nodes[(size_t) W(0, 1)];
		int   dir = (int) W(0, 1);
		if (!fam_can(n.fam(), dir) && W(0, 7) != 7)
			dir = 1 - dir;
		if (known_bad(w, n, 0, dir) != 0) {
			sim_probe("c15_avoided_known");
			sim_yield();
			continue;
		}
		Body     bo;
		nng_msg *m = NULL, *rm = NULL;
		uint8_t  body0[BODY_LEN];
		if (dir == D_SEND) {
			m = make_msg(n, 0, &bo);
			memcpy(body0, nng_msg_body(m), BODY_LEN);
		}
		uint64_t t0 = sim_now_ns(), s0 = sim_stall_total_ns();
		int      rv = dir == D_SEND ? nng_sendmsg(n.s, m, NNG_FLAG_NONBLOCK) : nng_recvmsg(n.s, &rm, NNG_FLAG_NONBLOCK);
		uint64_t t1 = sim_now_ns(), s1 = sim_stall_total_ns();
		uint64_t dt = (t1 - t0) > (s1 - s0) ? (t1 - t0) - (s1 - s0) : 0;
		const char *dn = dir == D_SEND ? "send" : "recv";
		sim_event("conc nb_%s n%d(%s) -> %s (%llu us)", dn, n.idx, n.ki().name, errname(rv),
		    (unsigned long long) (dt / 1000));
		if (dt > NB_LIMIT_NS)
			VIOL("nonblock_blocked",
			    "%s on %s: NNG_FLAG_NONBLOCK call took %llu ms of virtual time (stalls excluded) and returned %s "
			    "(other tasks active)",
			    dn, n.ki().name, (unsigned long long) (dt / 1000000), errname(rv));
		if (dir == D_SEND) {
			conc_note_send(n, rv);
			if (rv != 0) {
				if (nng_msg_len(m) != BODY_LEN || memcmp(nng_msg_body(m), body0, BODY_LEN) != 0)
					VIOL("message_altered_on_failure", "%s on %s failed with %s but the message body was changed",
					    dn, n.ki().name, errname(rv));
				nng_msg_free(m);
			}
		} else {
			conc_note_recv(n, rv);
			if (rv == 0) {
				conc_keep_request(n, rm);
				nng_msg_free(rm);
			} else if (rm != NULL) {
				VIOL("message_with_error", "%s on %s failed with %s but returned a message", dn, n.ki().name,
				    errname(rv));
			}
		}
		if (rv == 0)
			sim_probe(dir == D_SEND ? "c15_conc_send_ok" : "c15_conc_recv_ok");
		sim_stat("nontrivial", 1);
		long pause = W(0, 3);
		if (pause == 1)
			sim_yield();
		else if (pause == 2)
			sim_sleep_ns((uint64_t) W(0, 3000) * 1000);
	}
	ca.stop = 1;
	sim_join_all();
	// quiescent point after a concurrent history: descriptors must mirror the state
	for (int round = 0; round < 2; round++)
		for (Node *n : w.nodes)
			for (int dir = 0; dir < 2; dir++)
				if (fam_can(n->fam(), dir))
					(void) do_op(w, *n, 0, dir);
	for (size_t i = w.nodes.size(); i-- > 0;)
		close_node(w, *w.nodes[i]);
	for (Node *n : w.nodes)
		delete n;
}

SCENARIO(c15_conc, "C15", nb_cfg, conc_run);

} // namespace
