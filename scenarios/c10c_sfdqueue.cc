// C10: "After close returns, the handle and every handle derived from it ... are invalid: further calls fail ...
// instead of acting on released state" - and close itself must not act on state it has already released.
//
// socket:// listeners take connected descriptors from the application (NNG_OPT_SOCKET_FD) and queue them until the
// socket accepts them.  Here several descriptors are handed over back to back, so that some are still queued, and the
// listener and/or its socket are closed at once.  Every descriptor the listener took is the library's to close -
// exactly once.  The simulated kernel reports a close() of a descriptor that is not open (sim/net.cc,
// simnet_ebadf_close_fatal) as `descriptor_closed_twice`; the harness closes each of its own descriptors once.
// Also checked: the close calls return (Bounded), the peers of the descriptors that were taken over see their
// connection end (nothing stays half-open for ever), the descriptor numbers can be used again afterwards.
#include "../harness/util.h"
#include <nng/protocol/pair0/pair.h>
#include <nng/protocol/pipeline0/pull.h>
#include <sys/socket.h>
#include <unistd.h>

namespace {

static void
sq_run(Params *p)
{
	simnet_ebadf_close_fatal(1);
	int rounds = 1 + (int) W(0, 2);
	bool stream_api = p->draw("streamapi", 0, 1) != 0;
	for (int r = 0; r < rounds && stream_api; r++) {
		// the same through the byte-stream API: a socket:// stream listener whose queued descriptors are not all
		// accepted is closed, stopped and freed - the documented way to dispose of it
		nng_stream_listener *sl = NULL;
		MUST(nng_stream_listener_alloc(&sl, "socket://"));
		MUST(nng_stream_listener_listen(sl));
		int              n = 1 + (int) W(0, 6);
		std::vector<int> mine;
		for (int i = 0; i < n; i++) {
			int fds[2];
			if (socketpair(AF_UNIX, SOCK_STREAM, 0, fds) != 0)
				h_fatal("socketpair failed");
			if (nng_stream_listener_set_int(sl, NNG_OPT_SOCKET_FD, fds[0]) != 0)
				close(fds[0]);
			mine.push_back(fds[1]);
		}
		int take = (int) W(0, n);
		for (int i = 0; i < take; i++) {
			UAio ua;
			nng_aio_set_timeout(ua.aio, 100);
			ua.arm("accept");
			nng_stream_listener_accept(sl, ua.aio);
			if (ua.wait(0) == 0) {
				nng_stream *st = (nng_stream *) nng_aio_get_output(ua.aio, 0);
				nng_stream_close(st);
				nng_stream_stop(st);
				nng_stream_free(st);
			}
		}
		sim_event("round %d: stream listener, %d descriptors handed over, %d accepted; close, stop, free", r, n, take);
		nng_stream_listener_close(sl);
		int other[2] = { -1, -1 };
		if (W(0, 1) && socketpair(AF_UNIX, SOCK_STREAM, 0, other) != 0)
			h_fatal("socketpair failed");
		nng_stream_listener_stop(sl);
		nng_stream_listener_free(sl);
		sim_quiesce(5000000);
		if (other[0] >= 0) {
			char c = 'x';
			long wr = simnet_write_full(other[0], &c, 1, 100000000ull); // (not write(): the simulated kernel injects EINTR there)
			int  e1 = errno;
			long rd = wr == 1 ? simnet_read_full(other[1], &c, 1, 100000000ull) : -2;
			sim_event("other pair: write -> %ld errno %d, read -> %ld errno %d", wr, e1, rd, errno);
			if (wr != 1 || rd != 1)
				VIOL("foreign_descriptor_closed",
				    "a descriptor pair opened by the application after nng_stream_listener_close no longer works "
				    "after nng_stream_listener_stop: the library closed descriptor numbers it had already released");
			close(other[0]);
			close(other[1]);
		}
		for (int fd : mine)
			close(fd);
		sim_stat("nontrivial", 1);
	}
	for (int r = 0; r < rounds && !stream_api; r++) {
		nng_socket   v;
		nng_listener l;
		if (W(0, 1))
			MUST(nng_pull0_open(&v));
		else
			MUST(nng_pair0_open(&v));
		MUST(nng_listener_create(&l, v, "socket://"));
		// descriptors handed over before the listener is started stay queued for certain
		long early = W(0, 2); // 0 start first; 1 hand over first, start afterwards; 2 never started
		if (early == 0)
			MUST(nng_listener_start(l, 0));
		int              n = 2 + (int) W(0, 8);
		std::vector<int> mine;
		int              taken = 0;
		for (int i = 0; i < n; i++) {
			int fds[2];
			if (socketpair(AF_UNIX, SOCK_STREAM, 0, fds) != 0)
				h_fatal("socketpair failed");
			int rv = nng_listener_set_int(l, NNG_OPT_SOCKET_FD, fds[0]);
			if (rv != 0) {
				close(fds[0]); // refused (queue full): still ours
				sim_probe("c10_sfd_refused");
			} else {
				taken++;
			}
			mine.push_back(fds[1]);
			if (W(0, 7) == 0)
				sim_sleep_ns((uint64_t) W(0, 200) * 1000);
		}
		if (early == 1 && W(0, 1))
			MUST(nng_listener_start(l, 0));
		long how = W(0, 3);
		sim_event("round %d: %d of %d descriptors handed over; %s", r, taken, n,
		    how == 0 ? "listener closed, then the socket" : how == 1 ? "socket closed" : how == 2 ? "listener closed twice, then the socket" : "some traffic time, then socket closed");
		if (how == 3)
			sim_sleep_ms((uint64_t) W(1, 20));
		if (how == 0 || how == 2) {
			Bounded b("C10", "close_hang", 30000000000ull, "nng_listener_close");
			(void) nng_listener_close(l);
		}
		if (how == 2)
			(void) nng_listener_close(l);
		// something else opens descriptors in between: the numbers the listener released are handed out again
		int other[2] = { -1, -1 };
		if (W(0, 1) && socketpair(AF_UNIX, SOCK_STREAM, 0, other) != 0)
			h_fatal("socketpair failed");
		{
			Bounded b("C10", "close_hang", 30000000000ull, "nng_socket_close");
			MUST(nng_socket_close(v));
		}
		sim_quiesce(5000000);
		if (other[0] >= 0) {
			// nobody but the harness may have touched these
			char c = 'x';
			if (simnet_write_full(other[0], &c, 1, 100000000ull) != 1 || simnet_read_full(other[1], &c, 1, 100000000ull) != 1)
				VIOL("foreign_descriptor_closed",
				    "a descriptor pair opened by the application after nng_listener_close no longer works after "
				    "nng_socket_close: the library closed descriptor numbers it had already released");
			close(other[0]);
			close(other[1]);
		}
		for (int fd : mine)
			close(fd);
		sim_stat("nontrivial", 1);
	}
}
SCENARIO(c10_sfdqueue, "C10", NULL, sq_run);

} // namespace
