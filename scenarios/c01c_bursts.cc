// C01 (third file): c01_bursts - bursts that contain EMPTY messages, sent
// while the receiving application is behind.
//
// One connection (inproc, ws, tcp, ipc, abstract, tcp6, socket-fd) between two
// sockets: PAIR0, PUSH -> PULL, PAIR1, BUS, raw PAIR0 (a 0..8 byte header
// travels in front of the body; header and body may both be empty).  Small
// RECVBUF / SENDBUF.  A sender hands over a burst of 1..10 messages back to
// back; about half of them are empty, also several in a row, also the first
// and the last of the burst.  The receiving application is slow: it starts
// late and pauses 0..50 ms between two receives, so that most of the burst
// reaches the receiving socket while no receive is posted and the protocol's
// queue is full (the transport has to keep what it has read).  PAIR and BUS
// carry a burst in each direction at the same time.
//
// Every burst is sent twice on the same connection under the same pauses of
// the receiver: once as drawn, and once as its *twin* in which every empty
// message carries one payload byte instead (order of the two drawn).
//
// Oracle (only what the statement says):
//   * every message observed by a receiver equals, byte for byte, a message
//     that was sent on that stream (raw PAIR0: header bytes in front of the
//     body)                                      -> truncated / merged / altered
//   * no sent message is observed twice                            -> duplicated
//   * messages of one connection are observed in send order        -> reordered
//   * "a receiver never observes a ... merged ... message", "for every
//     message size including empty": a receive that stands for several
//     consecutive sends is a merged message also when all but one of them are
//     empty (their concatenation then equals that one byte for byte, so the
//     bytes of a single receive cannot show it; the count of receives does).
//     Claimed only with a reference point, as c01_cuts does for cut positions:
//     the connection was never disturbed, every send of both bursts was
//     accepted, the twin burst (same length, same pauses, one byte in place of
//     nothing) was delivered message by message - and of the burst with the
//     empty messages every byte arrived, in order, in messages that begin and
//     end where sent messages begin and end, at least one message was
//     received, but there were fewer receives than sends: the only thing
//     missing are boundaries between messages (order per connection rules out
//     that the missing empty messages come later)                     -> merged
//     Not claimed for BUS (best effort: a full queue drops whatever arrives,
//     empty or not), not when anything non-empty is missing, and not without
//     the reference point ("or not at all").
// Loss as such is NOT asserted ("or not at all"): it is counted (stat lost,
// probes c01b_lost_no_fault, c01b_twin_lost, c01b_bus_lost).
#include "../harness/util.h"

#include <errno.h>
#include <sys/socket.h>

#include <algorithm>

namespace {

typedef std::vector<uint8_t> Bytes;
static const uint64_t        MS = 1000000ull;
static const uint64_t        US = 1000ull;

enum { TRX_SOCKFD = TR_N };
enum { P_PAIR0 = 0, P_PIPELINE, P_PAIR1, P_BUS, P_PAIR0RAW, P_N };

static const char *
proto_name(int pr)
{
	static const char *n[] = { "pair0", "push/pull", "pair1", "bus", "pair0raw" };
	return n[pr];
}
static const char *
trx_name(int tr)
{
	return tr == TRX_SOCKFD ? "sockfd" : h_tr_name(tr);
}

// ----------------------------------------------------------------- model ---
struct Sent {
	uint32_t serial;
	Bytes    flat; // header bytes followed by body bytes
	bool     accepted;
	int      got;
};

struct Stream {
	std::string              name;
	uint16_t                 origin;
	std::vector<Sent>        sent;
	std::map<uint64_t, long> last; // per connection: index of the last message observed
	int                      delivered;
	Stream(const char *n, uint16_t o) : name(n), origin(o), delivered(0) { }
};

static uint16_t g_salt;

static bool
same(const Bytes &a, const uint8_t *p, size_t n)
{
	return a.size() == n && (n == 0 || memcmp(a.data(), p, n) == 0);
}

static std::string
describe(const uint8_t *p, size_t n)
{
	char b[160];
	Tag  t = tag_parse(p, n);
	if (t.ok)
		snprintf(b, sizeof(b), "len %zu [valid tag origin %u serial %u] %s", n, t.origin, t.serial,
		    h_hex(p, n, 12).c_str());
	else
		snprintf(b, sizeof(b), "len %zu %s", n, h_hex(p, n, 24).c_str());
	return b;
}

// A receiver observed the byte string p[0..n) on connection `conn`: it is the
// earliest not yet observed sent message with exactly these bytes that lies
// after the last one observed on the same connection.
static long
judge(Stream &st, const uint8_t *p, size_t n, uint64_t conn)
{
	long lastc = -1;
	auto it    = st.last.find(conn);
	if (it != st.last.end())
		lastc = it->second;
	long pick = -1, eq_ungot_lo = -1, eq_got = -1;
	for (size_t i = 0; i < st.sent.size(); i++) {
		const Sent &s = st.sent[i];
		if (!same(s.flat, p, n))
			continue;
		if (s.got == 0) {
			if ((long) i > lastc) {
				pick = (long) i;
				break;
			}
			if (eq_ungot_lo < 0)
				eq_ungot_lo = (long) i;
		} else {
			eq_got = (long) i;
		}
	}
	if (pick >= 0) {
		Sent &s = st.sent[(size_t) pick];
		s.got++;
		st.last[conn] = pick;
		st.delivered++;
		sim_event("%s: got #%u len=%zu conn=%llu", st.name.c_str(), s.serial, n, (unsigned long long) conn);
		return pick;
	}
	if (eq_ungot_lo >= 0)
		VIOL("reordered",
		    "%s: the receiver observed message #%u (%s) on connection %llu after message #%u of the same "
		    "connection, although it was sent before it",
		    st.name.c_str(), st.sent[(size_t) eq_ungot_lo].serial, describe(p, n).c_str(),
		    (unsigned long long) conn, st.sent[(size_t) lastc].serial);
	if (eq_got >= 0)
		VIOL("duplicated", "%s: the receiver observed message #%u (%s) a second time (connection %llu)",
		    st.name.c_str(), st.sent[(size_t) eq_got].serial, describe(p, n).c_str(), (unsigned long long) conn);
	// not equal to anything that was sent: classify the damage
	for (size_t i = 0; i < st.sent.size(); i++) {
		const Bytes &f = st.sent[i].flat;
		if (n < f.size() && (n == 0 || memcmp(f.data(), p, n) == 0))
			VIOL("truncated", "%s: the receiver observed %s = the first %zu of the %zu bytes of message #%u "
			                  "(tail missing)",
			    st.name.c_str(), describe(p, n).c_str(), n, f.size(), st.sent[i].serial);
	}
	for (size_t i = 0; i < st.sent.size(); i++) {
		const Bytes &f = st.sent[i].flat;
		if (n > 0 && n < f.size() && memcmp(f.data() + (f.size() - n), p, n) == 0)
			VIOL("truncated", "%s: the receiver observed %s = the last %zu of the %zu bytes of message #%u "
			                  "(head missing)",
			    st.name.c_str(), describe(p, n).c_str(), n, f.size(), st.sent[i].serial);
	}
	for (size_t i = 0; i < st.sent.size(); i++) {
		const Bytes &f = st.sent[i].flat;
		if (f.size() >= 1 && n > f.size() && memcmp(f.data(), p, f.size()) == 0 && i + 1 < st.sent.size()) {
			// whole of #i followed by the beginning of #i+1 ...
			const Bytes &g    = st.sent[i + 1].flat;
			size_t       rest = n - f.size();
			if (rest <= g.size() && memcmp(g.data(), p + f.size(), rest) == 0)
				VIOL("merged",
				    "%s: the receiver observed %s = the whole of message #%u (%zu bytes) followed by "
				    "%s message #%u (%zu of %zu bytes)",
				    st.name.c_str(), describe(p, n).c_str(), st.sent[i].serial, f.size(),
				    rest == g.size() ? "the whole of" : "the beginning of", st.sent[i + 1].serial, rest,
				    g.size());
		}
		if (f.size() >= 4 && n > f.size() && memcmp(f.data(), p, f.size()) == 0)
			VIOL("merged",
			    "%s: the receiver observed %s = the whole of message #%u (%zu bytes) followed by %zu "
			    "bytes of something else",
			    st.name.c_str(), describe(p, n).c_str(), st.sent[i].serial, f.size(), n - f.size());
		if (f.size() >= 4 && n > f.size() && memcmp(f.data(), p + (n - f.size()), f.size()) == 0)
			VIOL("merged",
			    "%s: the receiver observed %s = %zu foreign bytes followed by the whole of message #%u "
			    "(%zu bytes)",
			    st.name.c_str(), describe(p, n).c_str(), n - f.size(), st.sent[i].serial, f.size());
	}
	long   best  = -1;
	size_t bestd = 0, bestoff = 0;
	for (size_t i = 0; i < st.sent.size(); i++) {
		const Bytes &f = st.sent[i].flat;
		if (f.size() != n)
			continue;
		size_t d = 0, off = 0;
		for (size_t k = 0; k < n; k++)
			if (f[k] != p[k]) {
				if (d == 0)
					off = k;
				d++;
			}
		if (best < 0 || d < bestd) {
			best    = (long) i;
			bestd   = d;
			bestoff = off;
		}
	}
	if (best >= 0)
		VIOL("altered",
		    "%s: the receiver observed %s: same length as message #%u but %zu bytes differ, first at offset "
		    "%zu",
		    st.name.c_str(), describe(p, n).c_str(), st.sent[(size_t) best].serial, bestd, bestoff);
	VIOL("altered", "%s: the receiver observed %s which is not any message that was sent on this stream",
	    st.name.c_str(), describe(p, n).c_str());
	return -1;
}

// ------------------------------------------------------------- workload ---
struct Spec {
	size_t   hdr, body; // header bytes (raw PAIR0 only) and body bytes
	uint32_t gap_us;    // the sender waits this long before the message
};

struct End {
	const char       *nm;
	nng_socket        s;
	int               adds, rems;
	volatile uint32_t cur_pipe;
};

// one direction of the link
struct Dir {
	Stream *st;
	End    *tx, *rx;
	int     proto;
	int     recvbuf;
	bool    active;
	// the burst in progress
	std::vector<Spec>     burst;
	std::vector<uint32_t> pause_us; // the receiver's pause before receive number i of the burst
	long                  first, last1; // [first, last1): indices in st->sent of the burst in progress
	int                   refused;
	volatile int          send_done, stop, recv_done;
	UAio                 *rx_aio;
};

static void
pipe_cb(nng_pipe p, nng_pipe_ev ev, void *arg)
{
	End *e = (End *) arg;
	if (ev == NNG_PIPE_EV_ADD_POST) {
		e->cur_pipe = (uint32_t) nng_pipe_id(p);
		e->adds++;
	} else if (ev == NNG_PIPE_EV_REM_POST) {
		e->rems++;
		if (e->cur_pipe == (uint32_t) nng_pipe_id(p))
			e->cur_pipe = 0;
	}
}

static void
dir_sender(void *arg)
{
	Dir    *d  = (Dir *) arg;
	Stream &st = *d->st;
	for (size_t i = 0; i < d->burst.size(); i++) {
		const Spec &sp = d->burst[i];
		if (sp.gap_us)
			sim_sleep_ns((uint64_t) sp.gap_us * US);
		uint32_t serial = (uint32_t) st.sent.size();
		Sent     rec;
		rec.serial   = serial;
		rec.accepted = false;
		rec.got      = 0;
		// header: position-dependent bytes; body: tagged payload
		Bytes hdr(sp.hdr), body(sp.body);
		for (size_t k = 0; k < sp.hdr; k++)
			hdr[k] = (uint8_t) (0xa0 + 7 * serial + 13 * k + g_salt);
		if (sp.body)
			tag_fill(body.data(), sp.body, st.origin, g_salt, serial);
		rec.flat = hdr;
		rec.flat.insert(rec.flat.end(), body.begin(), body.end());
		nng_msg *m = NULL;
		MUST(nng_msg_alloc(&m, 0));
		if (sp.body)
			MUST(nng_msg_append(m, body.data(), body.size()));
		if (sp.hdr)
			MUST(nng_msg_header_append(m, hdr.data(), hdr.size()));
		if (rec.flat.empty()) {
			sim_probe("c01b_empty_msg");
			// how far behind is the receiving application?  (messages of this burst
			// sent before this one and not yet taken)
			int backlog = 0;
			for (long j = d->first; j < (long) st.sent.size(); j++)
				if (st.sent[(size_t) j].accepted && st.sent[(size_t) j].got == 0)
					backlog++;
			if (backlog >= d->recvbuf + 2)
				sim_probe("c01b_empty_behind_full_queue");
			if (i == 0)
				sim_probe("c01b_empty_first");
			if (i + 1 == d->burst.size())
				sim_probe("c01b_empty_last");
			if (i > 0 && d->burst[i - 1].hdr + d->burst[i - 1].body == 0)
				sim_probe("c01b_empty_run");
		}
		st.sent.push_back(rec);
		sim_event("%s: send #%u hdr=%zu body=%zu", st.name.c_str(), serial, sp.hdr, sp.body);
		int rv = nng_sendmsg(d->tx->s, m, 0);
		if (rv != 0) {
			nng_msg_free(m);
			sim_event("%s: send #%u not accepted: %s", st.name.c_str(), serial, nng_strerror((nng_err) rv));
			sim_stat("send_refused", 1);
			d->refused++;
			if (rv == NNG_ECLOSED)
				break;
			continue;
		}
		st.sent[serial].accepted = true;
	}
	d->last1     = (long) st.sent.size();
	d->send_done = 1;
}

static void
dir_take(Dir *d, nng_msg *m)
{
	Bytes          f;
	const uint8_t *h = (const uint8_t *) nng_msg_header(m);
	const uint8_t *b = (const uint8_t *) nng_msg_body(m);
	// raw PAIR0 does not interpret headers: what the sender put into its header
	// arrives in front of the body.  (PAIR1's hop count is the protocol's own.)
	if (d->proto == P_PAIR0RAW)
		f.assign(h, h + nng_msg_header_len(m));
	f.insert(f.end(), b, b + nng_msg_len(m));
	uint64_t conn = (uint64_t) nng_pipe_id(nng_msg_get_pipe(m));
	judge(*d->st, f.data(), f.size(), conn);
	if (f.empty())
		sim_probe("c01b_empty_delivered");
}

static void
dir_receiver(void *arg)
{
	Dir   *d = (Dir *) arg;
	UAio  &u = *d->rx_aio;
	size_t k = 0;
	while (!d->stop) {
		uint32_t pz = k < d->pause_us.size() ? d->pause_us[k] : 0;
		k++;
		if (pz) {
			sim_sleep_ns((uint64_t) pz * US);
			if (d->stop)
				break;
		}
		nng_aio_set_timeout(u.aio, NNG_DURATION_INFINITE);
		u.arm("c01b_recv");
		nng_socket_recv(d->rx->s, u.aio);
		u.wait(0);
		if (u.result != 0) {
			if (u.result == NNG_ECLOSED || u.result == NNG_ECANCELED)
				break;
			continue;
		}
		nng_msg *m = nng_aio_get_msg(u.aio);
		dir_take(d, m);
		nng_msg_free(m);
	}
	d->recv_done = 1;
}

// message sizes: 0 is an empty message
static Spec
draw_spec(int proto, size_t maxsz)
{
	Spec sp;
	sp.hdr = sp.body = 0;
	sp.gap_us        = 0;
	long cls         = W(0, 5);
	if (cls <= 2)
		sp.body = 0;
	else if (cls == 3)
		sp.body = (size_t) W(1, 19);
	else if (cls == 4)
		sp.body = (size_t) W(20, 200);
	else
		sp.body = (size_t) W(20, (long) std::max<size_t>(maxsz, 20));
	if (proto == P_PAIR0RAW && W(0, 3) == 3)
		sp.hdr = (size_t) W(1, 8);
	if (W(0, 7) == 7)
		sp.gap_us = (uint32_t) W(1, 3000);
	return sp;
}

static void
draw_burst(Dir *d, size_t maxsz, long *budget, long *msgcap)
{
	d->burst.clear();
	d->pause_us.clear();
	int n = 1 + (int) W(0, 9);
	if (n > *msgcap)
		n = *msgcap < 1 ? 1 : (int) *msgcap;
	*msgcap -= n;
	for (int i = 0; i < n; i++) {
		Spec sp = draw_spec(d->proto, maxsz);
		if ((long) sp.body > *budget)
			sp.body %= 20; // byte budget of the run used up: small messages only
		*budget -= (long) sp.body + 8;
		d->burst.push_back(sp);
	}
	// also empty as the first and as the last of a burst, and several in a row
	long shape = W(0, 7);
	if (shape & 1)
		d->burst[0].hdr = d->burst[0].body = 0;
	if (shape & 2)
		d->burst[(size_t) n - 1].hdr = d->burst[(size_t) n - 1].body = 0;
	if ((shape & 4) && n >= 3) {
		size_t a = (size_t) W(0, n - 2), len = (size_t) W(2, 4);
		for (size_t i = a; i < a + len && i < (size_t) n; i++)
			d->burst[i].hdr = d->burst[i].body = 0;
	}
	// the receiving application: late, and slow (the same pauses for the twin)
	for (int i = 0; i <= n; i++)
		d->pause_us.push_back(W(0, 3) == 0 ? 0 : (uint32_t) W(0, 50000));
}

static void
bursts_cfg(sim_config *cfg, Params *p)
{
	long   net    = p->draw("net", 0, 4);
	size_t maxsz  = 3000;
	long   budget = 60000; // bytes per run (each burst goes twice)
	switch (net) {
	case 0: // whole segments
		break;
	case 1: // each transfer: whole, one byte, or 1..16 bytes
		cfg->seg_mode = 3;
		maxsz         = 600;
		budget        = 2500;
		break;
	case 2: // random 1..k bytes, with latency between segments
		cfg->seg_mode   = 2;
		cfg->seg_k      = (int) (1 + p->draw("segk", 0, 11));
		cfg->lat_min_ns = 10000;
		cfg->lat_max_ns = 2000000;
		maxsz           = (size_t) (40 * cfg->seg_k);
		budget          = 120 * cfg->seg_k;
		break;
	case 3: { // small kernel buffers
		static const uint32_t lo[] = { 9, 24, 64, 1000 };
		long                  k    = p->draw("sndbuf", 0, 3);
		cfg->sndbuf_min            = lo[k];
		cfg->sndbuf_max            = lo[k] * 3;
		maxsz                      = lo[k] * 20;
		budget                     = (long) lo[k] * 100;
		break;
	}
	default: // medium pieces, EAGAIN
		cfg->seg_mode   = 2;
		cfg->seg_k      = 40;
		cfg->sndbuf_min = 30;
		cfg->sndbuf_max = 3000;
		cfg->eagain_p   = 0.02;
		maxsz           = 1500;
		budget          = 5000;
		break;
	}
	// list walks as scheduling points make every frame expensive in steps
	if (cfg->list_points && budget > 2000)
		budget /= 3;
	p->set("maxsz", (long) maxsz);
	p->set("budget", budget);
	p->set("msgcap", cfg->list_points ? 12 : 30);
}

static void
end_open(End *e, const char *nm, int proto, bool sender_end)
{
	e->nm       = nm;
	e->adds     = e->rems = 0;
	e->cur_pipe = 0;
	switch (proto) {
	case P_PAIR0:
		MUST(nng_pair0_open(&e->s));
		break;
	case P_PIPELINE:
		MUST(sender_end ? nng_push0_open(&e->s) : nng_pull0_open(&e->s));
		break;
	case P_PAIR1:
		MUST(nng_pair1_open(&e->s));
		break;
	case P_BUS:
		MUST(nng_bus0_open(&e->s));
		break;
	default:
		MUST(nng_pair0_open_raw(&e->s));
		break;
	}
	MUST(nng_socket_set_ms(e->s, NNG_OPT_SENDTIMEO, 10000));
	MUST(nng_pipe_notify(e->s, NNG_PIPE_EV_ADD_POST, pipe_cb, e));
	MUST(nng_pipe_notify(e->s, NNG_PIPE_EV_REM_POST, pipe_cb, e));
}

// small buffers (0 = the protocol's default); returns the receive buffer depth in force
static int
end_buffers(End *e, int proto)
{
	int  rb_eff = proto == P_PIPELINE ? 0 : proto == P_BUS ? 16 : 0;
	long sb     = W(0, 4);
	if (sb > 0) {
		int rv = nng_socket_set_int(e->s, NNG_OPT_SENDBUF, (int) (sb - 1));
		if (rv != 0 && rv != NNG_ENOTSUP && rv != NNG_EINVAL)
			MUST(rv);
	}
	long rb = W(0, 4);
	if (rb > 0) {
		int rv = nng_socket_set_int(e->s, NNG_OPT_RECVBUF, (int) (rb - 1));
		if (rv == 0)
			rb_eff = (int) (rb - 1);
		else if (rv != NNG_ENOTSUP && rv != NNG_EINVAL)
			MUST(rv);
	}
	return rb_eff;
}

static const size_t WS_FRAMES[] = { 1, 2, 7, 125, 126, 1000 };

static void
run_phase(Dir **dirs, int nd, bool twin)
{
	// the twin: one payload byte in place of nothing
	std::vector<std::vector<Spec>> keep;
	for (int i = 0; i < nd; i++) {
		Dir *d = dirs[i];
		keep.push_back(d->burst);
		if (twin)
			for (auto &sp : d->burst)
				if (sp.hdr + sp.body == 0)
					sp.body = 1;
		d->first     = (long) d->st->sent.size();
		d->last1     = d->first;
		d->send_done = d->stop = d->recv_done = 0;
		d->rx_aio                             = new UAio();
		sim_event("%s: %s burst of %zu messages", d->st->name.c_str(), twin ? "twin" : "drawn", d->burst.size());
	}
	for (int i = 0; i < nd; i++) {
		sim_spawn("rx", dir_receiver, dirs[i], 0);
		sim_spawn("tx", dir_sender, dirs[i], 0);
	}
	for (int i = 0; i < nd; i++)
		sim_wait_flag(&dirs[i]->send_done, 0);
	// everything that is going to arrive has arrived and has been taken: the
	// receivers' pauses are at most 50 ms and they end up in a receive without
	// a time limit
	sim_quiesce(60 * MS);
	sim_quiesce(60 * MS);
	for (int i = 0; i < nd; i++) {
		dirs[i]->stop = 1;
		if (!dirs[i]->recv_done)
			nng_aio_cancel(dirs[i]->rx_aio->aio);
	}
	sim_join_all();
	for (int i = 0; i < nd; i++) {
		delete dirs[i]->rx_aio;
		dirs[i]->rx_aio = NULL;
		dirs[i]->burst  = keep[(size_t) i];
	}
}

struct PhaseResult {
	long first, last1;
	int  refused;
};

static bool
all_delivered(const Stream &st, const PhaseResult &r)
{
	for (long i = r.first; i < r.last1; i++)
		if (!st.sent[(size_t) i].accepted || st.sent[(size_t) i].got != 1)
			return false;
	return true;
}

static void
bursts_run(Params *p)
{
	g_salt      = (uint16_t) W(0, 65535);
	// ws is where a message is put together from frames above a byte stream:
	// it gets four of ten draws
	static const int TRS[] = { TR_INPROC, TR_WS, TR_TCP, TR_IPC, TR_WS, TR_ABSTRACT, TRX_SOCKFD, TR_WS, TR_TCP6,
		TR_WS };
	int          tr    = TRS[p->draw("tr", 0, 9)];
	int          proto = (int) p->draw("proto", 0, P_N - 1);
	size_t       maxsz = (size_t) p->i("maxsz", 3000);
	long         budget = p->i("budget", 60000) / 2;
	long         msgcap = p->i("msgcap", 30); // messages per run (each burst goes twice)
	Stream ab("A>B", 1), ba("B>A", 2);
	End    A, B;
	end_open(&A, "A", proto, true);
	end_open(&B, "B", proto, false);
	int rbA = end_buffers(&A, proto);
	int rbB = end_buffers(&B, proto);

	bool a_listens = W(0, 1) == 0;
	End *lst = a_listens ? &A : &B, *dl = a_listens ? &B : &A;
	sim_event("c01_bursts tr=%s proto=%s listener=%s maxsz=%zu recvbuf A=%d B=%d", trx_name(tr), proto_name(proto),
	    lst->nm, maxsz, rbA, rbB);
	if (tr == TRX_SOCKFD) {
		int fds[2];
		if (socketpair(AF_UNIX, SOCK_STREAM, 0, fds) != 0)
			h_fatal("socketpair failed: %d", errno);
		nng_listener la, lb;
		MUST(nng_listener_create(&la, A.s, "socket://"));
		MUST(nng_listener_create(&lb, B.s, "socket://"));
		MUST(nng_listener_start(la, 0));
		MUST(nng_listener_start(lb, 0));
		MUST(nng_listener_set_int(la, NNG_OPT_SOCKET_FD, fds[0]));
		MUST(nng_listener_set_int(lb, NNG_OPT_SOCKET_FD, fds[1]));
	} else {
		std::string  url = h_url(tr, 1);
		nng_listener l;
		nng_dialer   d;
		MUST(nng_listener_create(&l, lst->s, url.c_str()));
		if (tr == TR_WS) {
			// largest frame nng sends: continuation frames occur
			long k = W(0, 6);
			if (k > 0) {
				if (nng_listener_set_size(l, NNG_OPT_WS_SENDMAXFRAME, WS_FRAMES[k - 1]) != 0)
					sim_probe("c01b_ws_opt_refused");
				maxsz = std::min(maxsz, WS_FRAMES[k - 1] * 150);
			}
		}
		MUST(nng_listener_start(l, 0));
		MUST(nng_dialer_create(&d, dl->s, url.c_str()));
		if (tr == TR_WS) {
			long k = W(0, 6);
			if (k > 0) {
				if (nng_dialer_set_size(d, NNG_OPT_WS_SENDMAXFRAME, WS_FRAMES[k - 1]) != 0)
					sim_probe("c01b_ws_opt_refused");
				maxsz = std::min(maxsz, WS_FRAMES[k - 1] * 150);
			}
		}
		MUST(nng_dialer_start(d, NNG_FLAG_NONBLOCK));
	}
	for (int i = 0; i < 5000 && (A.cur_pipe == 0 || B.cur_pipe == 0); i++)
		sim_sleep_ms(1);
	if (A.cur_pipe == 0 || B.cur_pipe == 0)
		sim_inconclusive("link did not come up");
	sim_quiesce(2 * MS);

	Dir dab, dba;
	dab.st = &ab, dab.tx = &A, dab.rx = &B, dab.proto = proto, dab.recvbuf = rbB, dab.rx_aio = NULL;
	dba.st = &ba, dba.tx = &B, dba.rx = &A, dba.proto = proto, dba.recvbuf = rbA, dba.rx_aio = NULL;
	dab.refused = dba.refused = 0;
	dab.active              = true;
	dba.active              = proto != P_PIPELINE && W(0, 1) == 1;
	Dir *dirs[2];
	int  nd    = 0;
	dirs[nd++] = &dab;
	if (dba.active)
		dirs[nd++] = &dba;

	int rounds = 1 + (int) W(0, 2);
	for (int r = 0; r < rounds && (r == 0 || msgcap > 0); r++) {
		for (int i = 0; i < nd; i++)
			draw_burst(dirs[i], maxsz, &budget, &msgcap);
		bool        twin_first = W(0, 1) == 0;
		PhaseResult res[2][2]; // [phase: 0 drawn, 1 twin][dir]
		for (int ph = 0; ph < 2; ph++) {
			bool twin = twin_first ? ph == 0 : ph == 1;
			for (int i = 0; i < nd; i++)
				dirs[i]->refused = 0;
			run_phase(dirs, nd, twin);
			for (int i = 0; i < nd; i++) {
				res[twin ? 1 : 0][i].first   = dirs[i]->first;
				res[twin ? 1 : 0][i].last1   = dirs[i]->last1;
				res[twin ? 1 : 0][i].refused = dirs[i]->refused;
			}
		}
		// ---- the burst with the empty messages against its twin
		bool undisturbed = A.adds == 1 && B.adds == 1 && A.rems == 0 && B.rems == 0;
		for (int i = 0; i < nd; i++) {
			Stream            &st = *dirs[i]->st;
			const PhaseResult &dr = res[0][i], &tw = res[1][i];
			bool               twin_ok = all_delivered(st, tw);
			bool               drawn_ok = all_delivered(st, dr);
			if (!twin_ok)
				sim_probe(proto == P_BUS ? "c01b_bus_lost" : "c01b_twin_lost");
			if (drawn_ok)
				continue;
			if (proto == P_BUS) {
				sim_probe("c01b_bus_lost");
				continue;
			}
			sim_probe("c01b_lost_no_fault");
			if (!undisturbed || !twin_ok || dr.refused || tw.refused)
				continue; // no reference point: nothing is claimed ("or not at all")
			// what is missing?
			long nmiss = 0, ngot = 0, j = -1, k = -1;
			bool only_empty = true;
			for (long x = dr.first; x < dr.last1; x++) {
				const Sent &sx = st.sent[(size_t) x];
				if (sx.got != 0) {
					ngot++;
					continue;
				}
				nmiss++;
				if (!sx.flat.empty())
					only_empty = false;
				if (j < 0)
					j = k = x;
			}
			if (!only_empty || ngot == 0)
				continue; // plain loss, or nothing observed at all: nothing is claimed
			while (k + 1 < dr.last1 && st.sent[(size_t) (k + 1)].got == 0)
				k++; // [j, k]: the first run of missing messages
			std::string before = j > dr.first ? "#" + std::to_string(st.sent[(size_t) (j - 1)].serial) +
			        " (" + std::to_string(st.sent[(size_t) (j - 1)].flat.size()) + " bytes)"
			                                  : std::string("the start of the burst");
			std::string after = k + 1 < dr.last1 ? "#" + std::to_string(st.sent[(size_t) (k + 1)].serial) +
			        " (" + std::to_string(st.sent[(size_t) (k + 1)].flat.size()) + " bytes)"
			                                     : std::string("the end of the burst");
			VIOL("merged",
			    "%s (%s over %s): %ld sends of one burst, all accepted, came out of the receiving socket as "
			    "%ld messages: every byte that was sent arrived, in order and in messages that begin and end "
			    "where sent messages begin and end, but %ld empty message(s) were never delivered as messages "
			    "of their own - the first ones #%u..#%u, sent between %s and %s on the same connection: "
			    "consecutive sends came out as one receive, whose bytes are their concatenation.  Nothing "
			    "disturbed the connection, and the same burst with one payload byte in place of each empty "
			    "message, sent on this connection under the same pauses of the receiving application, was "
			    "delivered message by message",
			    st.name.c_str(), proto_name(proto), trx_name(tr), dr.last1 - dr.first, ngot, nmiss,
			    st.sent[(size_t) j].serial, st.sent[(size_t) k].serial, before.c_str(), after.c_str());
		}
	}

	int lost = 0;
	for (Stream *st : { &ab, &ba }) {
		int accepted = 0;
		for (auto &s : st->sent) {
			if (s.accepted)
				accepted++;
			if (s.accepted && s.got == 0)
				lost++;
		}
		sim_stat("accepted", accepted);
		sim_stat("delivered", st->delivered);
	}
	sim_stat("lost", lost);
	if (ab.delivered + ba.delivered > 0)
		sim_stat("nontrivial", 1);
	MUST(nng_socket_close(A.s));
	MUST(nng_socket_close(B.s));
}

SCENARIO(c01_bursts, "C01", bursts_cfg, bursts_run);

} // namespace
