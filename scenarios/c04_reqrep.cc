// C04 REQ/REP: replies reach only the matching outstanding request.
#include "../harness/util.h"

#include <deque>
#include <set>

namespace {

static inline void
put32(uint8_t *p, uint32_t v)
{
	p[0] = (uint8_t) (v >> 24);
	p[1] = (uint8_t) (v >> 16);
	p[2] = (uint8_t) (v >> 8);
	p[3] = (uint8_t) v;
}
static inline uint32_t
get32(const uint8_t *p)
{
	return ((uint32_t) p[0] << 24) | ((uint32_t) p[1] << 16) | ((uint32_t) p[2] << 8) | p[3];
}

// ===========================================================================
// A. cooked REQ (socket + contexts) against an adversarial raw REP.
// request body : 'Q' ctx(1) serial(4)
// reply body   : 'R' kind(1) id_used(4) adv_serial(4) [echo of request body]
// ===========================================================================
struct ReqRec { // one request issued by the harness
	int      ctx;
	uint32_t serial;
	bool     seen_on_wire;
	uint32_t wire_id; // id the adversary saw
	int      tx_count;
	uint64_t sent_seq;
};

struct AWorld;
struct ACtx {
	AWorld  *w;
	int      idx;
	bool     is_sock;
	nng_ctx  ctx;
	int      cur;      // index into reqs of the current request, -1 none
	bool     answered; // current request already delivered a reply
	int      nreq;
	volatile int done;
};

struct AWorld {
	nng_socket         req, rep;
	std::vector<ACtx*> ctxs;
	std::vector<ReqRec> reqs;
	volatile int       stop_adv;
	uint32_t           adv_serial;
	uint32_t           last_id_seen;
	std::vector<std::pair<uint32_t, uint32_t>> recent; // (pipe, id) seen
	int                final_phase;
	int                correct_sent;
	int                send_failed;
};

static int
find_req(AWorld *w, int ctx, uint32_t serial)
{
	for (size_t i = 0; i < w->reqs.size(); i++)
		if (w->reqs[i].ctx == ctx && w->reqs[i].serial == serial)
			return (int) i;
	return -1;
}

static void
adv_reply(AWorld *w, uint32_t pipe, uint32_t id, uint8_t kind, const uint8_t *echo, size_t echolen)
{
	nng_msg *m = NULL;
	if (nng_msg_alloc(&m, 0) != 0)
		return;
	uint8_t hdr[8];
	put32(hdr, pipe);
	put32(hdr + 4, id);
	nng_msg_header_append(m, hdr, 8);
	uint8_t b[10];
	b[0] = 'R';
	b[1] = kind;
	put32(b + 2, id);
	put32(b + 6, w->adv_serial++);
	nng_msg_append(m, b, 10);
	if (echolen)
		nng_msg_append(m, echo, echolen);
	sim_event("adv: reply kind=%c id=%08x pipe=%u", kind, id, pipe);
	if (nng_sendmsg(w->rep, m, 0) != 0) {
		nng_msg_free(m);
		if (kind == 'C')
			w->send_failed++;
	}
}

// adversarial replier task
static void
adversary(void *a)
{
	AWorld *w = (AWorld *) a;
	while (!w->stop_adv) {
		nng_msg *m = NULL;
		int      rv = nng_recvmsg(w->rep, &m, 0); // 20 ms timeout set on socket
		if (rv != 0)
			continue;
		size_t hl = nng_msg_header_len(m);
		size_t bl = nng_msg_len(m);
		if (hl != 8 || bl < 6) {
			nng_msg_free(m);
			continue;
		}
		const uint8_t *h  = (const uint8_t *) nng_msg_header(m);
		const uint8_t *b  = (const uint8_t *) nng_msg_body(m);
		uint32_t       pipe = get32(h), id = get32(h + 4);
		int            ctx  = b[1];
		uint32_t       ser  = get32(b + 2);
		int            ri   = find_req(w, ctx, ser);
		if ((id & 0x80000000u) == 0)
			VIOL("bad_request_id", "request id %08x on the wire lacks the request bit", id);
		if (ri >= 0) {
			ReqRec &r = w->reqs[(size_t) ri];
			if (r.seen_on_wire && r.wire_id != id)
				VIOL("request_id_changed", "request ctx%d#%u retransmitted with a different id", ctx, ser);
			r.seen_on_wire = true;
			r.wire_id      = id;
			r.tx_count++;
		}
		sim_event("adv: saw request ctx%d#%u id=%08x", ctx, ser, id);
		uint8_t echo[6];
		memcpy(echo, b, 6);
		nng_msg_free(m);
		w->recent.push_back(std::make_pair(pipe, id));
		w->last_id_seen = id;
		// noise first (never a valid reply to anything outstanding by construction,
		// except kinds that are legitimately valid: see oracle)
		int nnoise = w->final_phase ? (int) W(0, 2) : (int) W(0, 3);
		for (int i = 0; i < nnoise; i++) {
			long k = W(0, 5);
			if (k == 0 && w->recent.size() > 1) { // stale: an id seen earlier
				auto &o = w->recent[(size_t) W(0, (long) w->recent.size() - 2)];
				adv_reply(w, pipe, o.second, 'S', NULL, 0);
			} else if (k == 1) { // next id, before that request exists
				adv_reply(w, pipe, id + 1, 'N', NULL, 0);
			} else if (k == 2) { // id without the request bit
				adv_reply(w, pipe, id & 0x7fffffffu, 'L', NULL, 0);
			} else if (k == 3) { // unknown id
				adv_reply(w, pipe, (id ^ 0x00555000u) | 0x80000000u, 'U', NULL, 0);
			} else if (k == 4) { // previous id
				adv_reply(w, pipe, id - 1, 'P', NULL, 0);
			} else {
				sim_sleep_ns((uint64_t) W(0, 3000) * 1000);
			}
		}
		bool answer = w->final_phase || W(0, 4) != 0;
		if (answer) {
			adv_reply(w, pipe, id, 'C', echo, 6);
			w->correct_sent++;
			if (W(0, 3) == 0)
				adv_reply(w, pipe, id, 'D', echo, 6); // duplicate
		}
	}
}

// validate a delivered reply against the context's current request
static void
check_reply(AWorld *w, ACtx *c, nng_msg *m, const char *how)
{
	size_t         n = nng_msg_len(m);
	const uint8_t *b = (const uint8_t *) nng_msg_body(m);
	if (n < 10 || b[0] != 'R')
		VIOL("altered_message", "ctx%d received a malformed reply (%zu bytes)", c->idx, n);
	uint32_t used = get32(b + 2);
	char     kind = (char) b[1];
	sim_event("ctx%d: %s delivered reply kind=%c id=%08x", c->idx, how, kind, used);
	if (c->cur < 0)
		VIOL("reply_without_request", "ctx%d received a reply (kind %c id %08x) with no outstanding request", c->idx,
		    kind, used);
	if (c->answered)
		VIOL("reply_twice", "ctx%d received a second reply (kind %c) for request #%u", c->idx, kind,
		    w->reqs[(size_t) c->cur].serial);
	c->answered = true;
	// the reply must have been addressed to the id of the CURRENT request;
	// the id is known once the adversary has seen that request on the wire
	// (checked again at the end for requests still in flight to it).
	ReqRec &r = w->reqs[(size_t) c->cur];
	if (r.seen_on_wire && r.wire_id != used)
		VIOL("reply_misrouted",
		    "ctx%d: reply addressed to id %08x (kind %c) delivered, but the current request #%u has id %08x", c->idx,
		    used, kind, r.serial, r.wire_id);
	if (n >= 16) {
		// an echoing reply names the request it answers
		int      ectx = b[11];
		uint32_t eser = get32(b + 12);
		if (ectx != c->idx || eser != r.serial)
			VIOL("reply_misrouted", "ctx%d (current request #%u) received the reply to ctx%d#%u", c->idx, r.serial,
			    ectx, eser);
	}
	// remember for the end-of-run check
	r.tx_count |= 0x10000;
	r.sent_seq = used;
	sim_stat("replies_delivered", 1);
}

static int
ctx_send(AWorld *w, ACtx *c)
{
	ReqRec r;
	r.ctx          = c->idx;
	r.serial       = (uint32_t) c->nreq++;
	r.seen_on_wire = false;
	r.wire_id      = 0;
	r.tx_count     = 0;
	r.sent_seq     = 0;
	nng_msg *m = NULL;
	MUST(nng_msg_alloc(&m, 0));
	uint8_t b[6];
	b[0] = 'Q';
	b[1] = (uint8_t) c->idx;
	put32(b + 2, r.serial);
	nng_msg_append(m, b, 6);
	w->reqs.push_back(r);
	int prev    = c->cur;
	c->cur      = (int) w->reqs.size() - 1;
	c->answered = false;
	sim_event("ctx%d: send request #%u", c->idx, r.serial);
	UAio u;
	nng_aio_set_timeout(u.aio, 2000);
	nng_aio_set_msg(u.aio, m);
	u.arm("req_send");
	if (c->is_sock)
		nng_socket_send(w->req, u.aio);
	else
		nng_ctx_send(c->ctx, u.aio);
	u.wait(0);
	if (u.result != 0) {
		nng_msg_free(nng_aio_get_msg(u.aio));
		w->reqs.pop_back();
		c->cur = -1; // a failed send aborts the state machine
		(void) prev;
		return u.result;
	}
	return 0;
}

static void
req_driver(void *a)
{
	ACtx   *c = (ACtx *) a;
	AWorld *w = c->w;
	int     nops = (int) W(2, 14);
	UAio   *pend = NULL; // pending async recv
	for (int op = 0; op < nops; op++) {
		long k = W(0, 7);
		if (k <= 2) { // new request (supersedes / cancels)
			bool had_pending = pend != NULL;
			int  rv = ctx_send(w, c);
			if (rv != 0)
				VIOL("request_send_failed", "ctx%d send returned %d", c->idx, rv);
			if (had_pending) {
				// the pending receive belonged to the superseded request
				if (pend->wait(5000000000ull) == (nng_err) -1)
					VIOL("recv_not_cancelled", "ctx%d: receive still pending after a new request", c->idx);
				if (pend->result == 0) {
					// completed just before the new send: it answered the OLD request;
					// validated when it completed (see below) -> must not happen here
					nng_msg *m = nng_aio_get_msg(pend->aio);
					nng_msg_free(m);
					sim_probe("c04_recv_raced_new_send");
				}
				delete pend;
				pend = NULL;
			}
		} else if (k <= 5) { // receive (blocking with timeout)
			if (pend != NULL)
				continue;
			// sometimes let replies (and their duplicates) arrive first,
			// so that they are stashed before anybody receives
			if (W(0, 2) == 0)
				sim_sleep_ns((uint64_t) W(0, 4000) * 1000);
			UAio u;
			nng_aio_set_timeout(u.aio, (nng_duration) W(1, 60));
			u.arm("req_recv");
			if (c->is_sock)
				nng_socket_recv(w->req, u.aio);
			else
				nng_ctx_recv(c->ctx, u.aio);
			u.wait(0);
			if (u.result == 0) {
				nng_msg *m = nng_aio_get_msg(u.aio);
				check_reply(w, c, m, "recv");
				nng_msg_free(m);
				c->cur = -1;
			} else if (u.result == NNG_ESTATE) {
				if (c->cur >= 0 && !c->answered)
					VIOL("estate_with_request", "ctx%d: receive failed with NNG_ESTATE though request #%u is outstanding",
					    c->idx, w->reqs[(size_t) c->cur].serial);
				sim_probe("c04_estate_recv");
			} else if (u.result == NNG_ETIMEDOUT) {
				c->cur = -1; // timing out a receive abandons the request
			} else {
				VIOL("recv_error", "ctx%d: receive returned %d", c->idx, u.result);
			}
		} else if (k == 6) { // start an async receive and leave it pending
			if (pend != NULL || c->cur < 0)
				continue;
			pend = new UAio();
			nng_aio_set_timeout(pend->aio, 5000);
			pend->arm("req_recv_async");
			if (c->is_sock)
				nng_socket_recv(w->req, pend->aio);
			else
				nng_ctx_recv(c->ctx, pend->aio);
			// second concurrent receive must be refused
			if (W(0, 1)) {
				UAio u2;
				nng_aio_set_timeout(u2.aio, 100);
				u2.arm("req_recv_second");
				if (c->is_sock)
					nng_socket_recv(w->req, u2.aio);
				else
					nng_ctx_recv(c->ctx, u2.aio);
				u2.wait(0);
				if (u2.result == 0) {
					// legal only if the first one already completed and this one got... no:
					// one request yields at most one reply
					if (!pend->poll())
						VIOL("second_recv_succeeded", "ctx%d: a second concurrent receive returned a message", c->idx);
					nng_msg_free(nng_aio_get_msg(u2.aio));
					VIOL("reply_twice", "ctx%d: two receives both returned a reply for one request", c->idx);
				} else if (u2.result != NNG_ESTATE) {
					VIOL("second_recv_not_estate", "ctx%d: second concurrent receive returned %d, expected NNG_ESTATE",
					    c->idx, u2.result);
				} else {
					sim_probe("c04_estate_second_recv");
				}
			}
		} else { // cancel or reap the pending receive
			if (pend == NULL)
				continue;
			if (W(0, 1))
				nng_aio_cancel(pend->aio);
			if (pend->wait(20000000000ull) == (nng_err) -1)
				VIOL("recv_hang", "ctx%d: pending receive never completed", c->idx);
			if (pend->result == 0) {
				nng_msg *m = nng_aio_get_msg(pend->aio);
				check_reply(w, c, m, "async recv");
				nng_msg_free(m);
			}
			c->cur = -1;
			delete pend;
			pend = NULL;
		}
	}
	if (pend != NULL) {
		nng_aio_cancel(pend->aio);
		pend->wait(20000000000ull);
		if (pend->result == 0) {
			nng_msg *m = nng_aio_get_msg(pend->aio);
			check_reply(w, c, m, "async recv");
			nng_msg_free(m);
		}
		c->cur = -1;
		delete pend;
	}
	c->done = 1;
}

static void
reqatk_run(Params *p)
{
	AWorld w;
	int    nctx = (int) W(0, 3);
	int    tr   = (int) p->draw("tr", 0, 2);
	w.stop_adv = 0;
	w.adv_serial = 0;
	w.last_id_seen = 0;
	w.final_phase = 0;
	w.correct_sent = 0;
	w.send_failed = 0;
	MUST(nng_req0_open(&w.req));
	MUST(nng_rep0_open_raw(&w.rep));
	MUST(nng_socket_set_ms(w.rep, NNG_OPT_RECVTIMEO, 20));
	MUST(nng_socket_set_ms(w.rep, NNG_OPT_SENDTIMEO, 1000));
	static const nng_duration resend[] = { 60000, NNG_DURATION_INFINITE, 30, 200 };
	MUST(nng_socket_set_ms(w.req, NNG_OPT_REQ_RESENDTIME, resend[W(0, 3)]));
	MUST(nng_socket_set_ms(w.req, NNG_OPT_REQ_RESENDTICK, 10));
	for (int i = 0; i <= nctx; i++) {
		ACtx *c    = new ACtx();
		c->w       = &w;
		c->idx     = i;
		c->is_sock = i == 0;
		c->cur     = -1;
		c->answered = false;
		c->nreq    = 0;
		c->done    = 0;
		if (i > 0)
			MUST(nng_ctx_open(&c->ctx, w.req));
		w.ctxs.push_back(c);
	}
	std::string url = h_url(tr, 50);
	MUST(nng_listen(w.rep, url.c_str(), NULL, 0));
	MUST(nng_dial(w.req, url.c_str(), NULL, 0));
	sim_quiesce(10000000);
	sim_event("c04_reqatk tr=%s ctxs=%d", h_tr_name(tr), nctx + 1);
	// state machine: receive before send
	for (auto c : w.ctxs) {
		nng_msg *m = NULL;
		int      rv = c->is_sock ? nng_recvmsg(w.req, &m, NNG_FLAG_NONBLOCK) : nng_ctx_recvmsg(c->ctx, &m, NNG_FLAG_NONBLOCK);
		if (rv == 0) {
			nng_msg_free(m);
			VIOL("recv_before_send_ok", "ctx%d: receive before any send returned a message", c->idx);
		}
		if (rv != NNG_ESTATE)
			VIOL("recv_before_send_not_estate", "ctx%d: receive before send returned %d, expected NNG_ESTATE", c->idx, rv);
	}
	int adv = sim_spawn("adversary", adversary, &w, 0);
	for (auto c : w.ctxs)
		sim_spawn("reqdrv", req_driver, c, 0);
	for (auto c : w.ctxs)
		sim_wait_flag(&c->done, 0);
	// final phase: every context issues one request; the adversary answers
	// each exactly once (after noise); everybody must get their own reply.
	w.final_phase = 1;
	sim_sleep_ms(100); // let stale traffic drain
	for (auto c : w.ctxs) {
		int rv = ctx_send(&w, c);
		if (rv != 0)
			VIOL("request_send_failed", "ctx%d final send returned %d", c->idx, rv);
	}
	for (auto c : w.ctxs) {
		UAio u;
		nng_aio_set_timeout(u.aio, 10000);
		u.arm("req_recv_final");
		if (c->is_sock)
			nng_socket_recv(w.req, u.aio);
		else
			nng_ctx_recv(c->ctx, u.aio);
		u.wait(0);
		if (u.result != 0 && w.send_failed) {
			sim_probe("c04_adv_send_failed");
			continue;
		}
		if (u.result != 0)
			VIOL("reply_not_delivered",
			    "ctx%d: the correct reply to its outstanding request was sent but receive returned %d "
			    "(other contexts' noise must not disturb it)",
			    c->idx, u.result);
		nng_msg *m = nng_aio_get_msg(u.aio);
		check_reply(&w, c, m, "final recv");
		nng_msg_free(m);
		// and only once
		nng_msg *m2 = NULL;
		int      rv = c->is_sock ? nng_recvmsg(w.req, &m2, NNG_FLAG_NONBLOCK) : nng_ctx_recvmsg(c->ctx, &m2, NNG_FLAG_NONBLOCK);
		if (rv == 0) {
			nng_msg_free(m2);
			VIOL("reply_twice", "ctx%d: a second receive after the reply returned another message", c->idx);
		}
		if (rv != NNG_ESTATE)
			VIOL("recv_after_reply_not_estate", "ctx%d: receive after the reply returned %d, expected NNG_ESTATE", c->idx, rv);
	}
	// let requests still in flight reach the adversary's log before judging
	sim_sleep_ms(150);
	w.stop_adv = 1;
	sim_join(adv);
	sim_join_all();
	// end-of-run: every delivered reply was addressed to the id its request had on the wire
	for (auto &r : w.reqs) {
		if ((r.tx_count & 0x10000) == 0)
			continue;
		if (!r.seen_on_wire)
			VIOL("reply_before_wire", "ctx%d#%u got a reply although the request never reached the wire", r.ctx, r.serial);
		if (r.wire_id != (uint32_t) r.sent_seq)
			VIOL("reply_misrouted", "ctx%d#%u (wire id %08x) was given a reply addressed to id %08x", r.ctx, r.serial,
			    r.wire_id, (uint32_t) r.sent_seq);
	}
	sim_stat("nontrivial", 1);
	for (size_t i = 1; i < w.ctxs.size(); i++)
		MUST(nng_ctx_close(w.ctxs[i]->ctx));
	MUST(nng_socket_close(w.req));
	MUST(nng_socket_close(w.rep));
	for (auto c : w.ctxs)
		delete c;
}

static void
net_cfg(sim_config *cfg, Params *p)
{
	long net = p->draw("net", 0, 3);
	if (net == 1) {
		cfg->seg_mode = 3;
	} else if (net == 2) {
		cfg->seg_mode   = 2;
		cfg->seg_k      = 9;
		cfg->lat_min_ns = 10000;
		cfg->lat_max_ns = 3000000;
	} else if (net == 3) {
		cfg->lat_min_ns = 1000000;
		cfg->lat_max_ns = 20000000;
	}
}
SCENARIO(c04_reqatk, "C04", net_cfg, reqatk_run);

// ---------------------------------------------------------------------------
// A2. replies that arrive before the request has been handed to a connection.
// The REQ->REP direction is stalled with a tiny kernel buffer, so one request
// occupies the only pipe and the next one stays queued inside the socket; the
// adversary (who can predict ids) answers it anyway.
static void
prewire_run(Params *p)
{
	(void) p;
	nng_socket req, rep;
	MUST(nng_req0_open(&req));
	MUST(nng_rep0_open_raw(&rep));
	MUST(nng_socket_set_ms(rep, NNG_OPT_RECVTIMEO, 200));
	MUST(nng_socket_set_ms(rep, NNG_OPT_SENDTIMEO, 1000));
	MUST(nng_socket_set_ms(req, NNG_OPT_REQ_RESENDTIME, NNG_DURATION_INFINITE));
	const int port = 5000 + 55;
	std::string url = h_url(TR_TCP, 55);
	MUST(nng_listen(rep, url.c_str(), NULL, 0));
	MUST(nng_dial(req, url.c_str(), NULL, 0));
	sim_quiesce(10000000);
	nng_ctx c[3];
	for (int i = 0; i < 3; i++)
		MUST(nng_ctx_open(&c[i], req));
	auto mkreq = [](int ctx, size_t pad) {
		nng_msg *m = NULL;
		MUST(nng_msg_alloc(&m, 0));
		uint8_t b[6] = { 'Q', (uint8_t) ctx, 0, 0, 0, 0 };
		nng_msg_append(m, b, 6);
		std::string fill(pad, 'x');
		nng_msg_append(m, fill.data(), fill.size());
		return m;
	};
	// 1. first request goes through; the adversary learns the id sequence
	MUST(nng_ctx_sendmsg(c[0], mkreq(0, 0), 0));
	nng_msg *m = NULL;
	MUST(nng_recvmsg(rep, &m, 0));
	const uint8_t *h    = (const uint8_t *) nng_msg_header(m);
	uint32_t       pipe = get32(h), id0 = get32(h + 4);
	nng_msg_free(m);
	// 2. stall client->server; a big request occupies the pipe
	simnet_stall_port((uint16_t) port, 1, 1);
	UAio s1, s2;
	nng_aio_set_msg(s1.aio, mkreq(1, (size_t) W(300, 2000)));
	nng_aio_set_timeout(s1.aio, 5000);
	s1.arm("send1");
	nng_ctx_send(c[1], s1.aio);
	sim_quiesce(5000000);
	nng_aio_set_msg(s2.aio, mkreq(2, 0));
	nng_aio_set_timeout(s2.aio, 5000);
	s2.arm("send2");
	nng_ctx_send(c[2], s2.aio);
	sim_quiesce(5000000);
	bool queued = !s2.poll(); // request 2 has not been handed to any connection
	sim_event("prewire: id0=%08x send1 done=%d send2 done=%d", id0, (int) s1.poll(), (int) s2.poll());
	// 3. the adversary answers ids that are not on the wire yet
	AWorld w;
	w.rep = rep;
	w.adv_serial = 0;
	w.send_failed = 0;
	for (uint32_t k = 1; k <= 4; k++)
		adv_reply(&w, pipe, id0 + k, 'N', NULL, 0);
	sim_quiesce(5000000);
	if (queued && s2.poll())
		sim_probe("c04_prewire_send2_completed_during_stall");
	// a receive on ctx 2 cannot legitimately have a reply now
	if (queued && !s2.poll()) {
		sim_stat("nontrivial", 1);
		sim_probe("c04_prewire_window_entered");
		UAio r2;
		nng_aio_set_timeout(r2.aio, 30);
		r2.arm("recv2");
		nng_ctx_recv(c[2], r2.aio);
		r2.wait(0);
		if (r2.result == 0) {
			nng_msg_free(nng_aio_get_msg(r2.aio));
			VIOL("reply_before_wire",
			    "ctx 2 received a reply while its request was still queued inside the socket "
			    "(never handed to a connection)");
		}
		// note: that receive timing out abandons request 2 (documented REQ semantics)
	}
	// 4. heal; everything must still work
	simnet_stall_port((uint16_t) port, 1, 0);
	s1.wait(0);
	s2.wait(0);
	if (s1.result != 0)
		nng_msg_free(nng_aio_get_msg(s1.aio));
	if (s2.result != 0)
		nng_msg_free(nng_aio_get_msg(s2.aio));
	for (int k = 0; k < 4; k++) {
		nng_msg *q = NULL;
		if (nng_recvmsg(rep, &q, 0) != 0)
			break;
		const uint8_t *qh = (const uint8_t *) nng_msg_header(q);
		const uint8_t *qb = (const uint8_t *) nng_msg_body(q);
		if (nng_msg_header_len(q) == 8 && nng_msg_len(q) >= 6) {
			uint8_t echo[6];
			memcpy(echo, qb, 6);
			adv_reply(&w, get32(qh), get32(qh + 4), 'C', echo, 6);
		}
		nng_msg_free(q);
	}
	// a fresh exchange on ctx 0 must work and deliver its own reply
	MUST(nng_ctx_sendmsg(c[0], mkreq(0, 0), 0));
	nng_msg *q = NULL;
	bool     got0 = false;
	// requests of the other contexts may still be arriving (the link has
	// only just healed): answer them too, until ctx 0's new one shows up
	for (int k = 0; k < 12 && !got0; k++) {
		if (nng_recvmsg(rep, &q, 0) != 0)
			break;
		const uint8_t *qh = (const uint8_t *) nng_msg_header(q);
		uint8_t echo[6] = { 0 };
		if (nng_msg_header_len(q) == 8 && nng_msg_len(q) >= 6) {
			memcpy(echo, nng_msg_body(q), 6);
			adv_reply(&w, get32(qh), get32(qh + 4), 'C', echo, 6);
			got0 = echo[1] == 0;
		}
		nng_msg_free(q);
	}
	if (got0) {
		nng_msg *r = NULL;
		nng_ctx_set_ms(c[0], NNG_OPT_RECVTIMEO, 2000);
		int rv = nng_ctx_recvmsg(c[0], &r, 0);
		if (rv != 0)
			VIOL("reply_not_delivered", "after the stall ctx 0's correct reply was not delivered (%d)", rv);
		const uint8_t *rb = (const uint8_t *) nng_msg_body(r);
		if (nng_msg_len(r) < 16 || rb[1] != 'C' || rb[11] != 0)
			VIOL("reply_misrouted", "ctx 0 received a reply that is not the answer to its request");
		nng_msg_free(r);
	}
	for (int i = 0; i < 3; i++)
		MUST(nng_ctx_close(c[i]));
	MUST(nng_socket_close(req));
	MUST(nng_socket_close(rep));
}
static void
prewire_cfg(sim_config *cfg, Params *p)
{
	(void) p;
	cfg->sndbuf_min = 24;
	cfg->sndbuf_max = 64;
}
SCENARIO(c04_prewire, "C04", prewire_cfg, prewire_run);

// ---------------------------------------------------------------------------
// A''. requests that die before they reach the wire (send timed out with no
// peer, cancelled or superseded while queued behind a stalled connection,
// receive timed out) leave nothing behind: an adversary that guesses their
// ids (ids are sequential) is ignored, and the next request of the same
// context gets its own reply only.
static void
dead_run(Params *p)
{
	nng_socket req, rep;
	MUST(nng_req0_open(&req));
	MUST(nng_rep0_open_raw(&rep));
	MUST(nng_socket_set_ms(rep, NNG_OPT_RECVTIMEO, 300));
	MUST(nng_socket_set_ms(rep, NNG_OPT_SENDTIMEO, 1000));
	static const nng_duration resend[] = { NNG_DURATION_INFINITE, 60000, 40 };
	MUST(nng_socket_set_ms(req, NNG_OPT_REQ_RESENDTIME, resend[W(0, 2)]));
	MUST(nng_socket_set_ms(req, NNG_OPT_REQ_RESENDTICK, 10));
	int         tr   = (int) p->draw("tr", 0, 2) == 0 ? TR_TCP : (int) W(0, 2);
	const int   port = 5000 + 57;
	std::string url  = h_url(tr, 57);
	const int   nctx = 1 + (int) W(0, 2); // index 0 = the socket itself
	nng_ctx     c[3];
	for (int i = 1; i < nctx; i++)
		MUST(nng_ctx_open(&c[i], req));
	auto mkreq = [](int ctx, uint32_t ser, size_t pad) {
		nng_msg *m = NULL;
		MUST(nng_msg_alloc(&m, 0));
		uint8_t b[6] = { 'Q', (uint8_t) ctx, 0, 0, 0, 0 };
		put32(b + 2, ser);
		nng_msg_append(m, b, 6);
		std::string fill(pad, 'x');
		nng_msg_append(m, fill.data(), fill.size());
		return m;
	};
	auto submit = [&](UAio &u, int ci, uint32_t ser, size_t pad, nng_duration to) {
		nng_aio_set_msg(u.aio, mkreq(ci, ser, pad));
		nng_aio_set_timeout(u.aio, to);
		u.arm("dead_send");
		if (ci == 0)
			nng_socket_send(req, u.aio);
		else
			nng_ctx_send(c[ci], u.aio);
	};
	auto reap = [](UAio &u) {
		u.wait(0);
		if (u.result != 0) {
			nng_msg_free(nng_aio_get_msg(u.aio));
			nng_aio_set_msg(u.aio, NULL);
		}
		return u.result;
	};
	// "the state machines reject out-of-order use: receive before send on REQ ...
	// fail with NNG_ESTATE": a request whose send failed is not outstanding.
	auto expect_estate = [&](int ci, const char *after) {
		UAio r;
		nng_aio_set_timeout(r.aio, (nng_duration) W(0, 40));
		r.arm("estate_recv");
		if (ci == 0)
			nng_socket_recv(req, r.aio);
		else
			nng_ctx_recv(c[ci], r.aio);
		r.wait(0);
		sim_probe("c04_dead_estate_checked");
		if (r.result == 0)
			nng_msg_free(nng_aio_get_msg(r.aio));
		if (r.result != NNG_ESTATE)
			VIOL("recv_without_request",
			    "ctx%d: receive after %s (no request outstanding) returned %d instead of NNG_ESTATE", ci, after,
			    r.result);
	};
	AWorld w;
	w.rep         = rep;
	w.adv_serial  = 0;
	w.send_failed = 0;
	uint32_t ser = 1;
	int      dead = 0;
	// (a) no peer at all: the send can only time out
	if (W(0, 1) == 0) {
		int  ci = (int) W(0, nctx - 1);
		UAio u;
		submit(u, ci, ser++, 0, (nng_duration) W(0, 30)); // 0: refused on the spot
		int rv = reap(u);
		sim_event("dead: ctx%d send without peer -> %d", ci, rv);
		if (rv == 0)
			VIOL("send_without_peer_ok", "a request was accepted for sending although no peer exists");
		dead++;
		if (W(0, 1))
			expect_estate(ci, "a send that failed for want of a peer");
	}
	MUST(nng_listen(rep, url.c_str(), NULL, 0));
	MUST(nng_dial(req, url.c_str(), NULL, 0));
	sim_quiesce(10000000);
	int rounds = 1 + (int) W(0, 2);
	for (int round = 0; round < rounds; round++) {
		int  ci      = (int) W(0, nctx - 1);
		long how     = W(0, 5); // 0 none, 1 cancel queued send, 2 send timeout, 3 superseded, 4 receive timed out, 5 connection lost after the send
		bool stalled = false;
		if (how >= 1 && how <= 3 && tr == TR_TCP && nctx > 1) {
			// occupy the only connection so that the next send stays queued in the socket
			simnet_stall_port((uint16_t) port, 1, 1);
			stalled = true;
			int  blocker = ci == 0 ? 1 : 0;
			UAio b;
			submit(b, blocker, ser++, (size_t) W(1500, 6000), 3000);
			sim_quiesce(3000000);
			UAio q;
			submit(q, ci, ser++, 0, how == 2 ? (nng_duration) W(0, 20) : 3000);
			sim_quiesce(2000000);
			bool was_queued = !q.poll();
			bool last_failed = false;
			if (how == 1) {
				nng_aio_cancel(q.aio);
			} else if (how == 3) {
				UAio q2;
				submit(q2, ci, ser++, 0, 3000);
				sim_quiesce(2000000);
				nng_aio_cancel(q2.aio);
				last_failed = reap(q2) != 0;
				dead++;
			}
			int rv = reap(q);
			if (how != 3)
				last_failed = rv != 0;
			if (last_failed && W(0, 1))
				expect_estate(ci, "a send that was cancelled, timed out or refused while the only connection was busy");
			sim_event("dead: round %d ctx%d how=%ld queued=%d -> %d", round, ci, how, (int) was_queued, rv);
			if (was_queued && rv != 0) {
				dead++;
				sim_probe("c04_dead_send_while_queued");
			}
			simnet_stall_port((uint16_t) port, 1, 0);
			nng_aio_cancel(b.aio);
			reap(b);
		} else if (how == 4) {
			UAio u;
			submit(u, ci, ser++, 0, 3000);
			if (reap(u) == 0) {
				UAio r;
				nng_aio_set_timeout(r.aio, (nng_duration) W(1, 10));
				r.arm("dead_recv");
				if (ci == 0)
					nng_socket_recv(req, r.aio);
				else
					nng_ctx_recv(c[ci], r.aio);
				r.wait(0);
				if (r.result == 0)
					VIOL("reply_without_reply", "ctx%d received a reply nobody sent", ci);
				dead++;
			}
		}
		else if (how == 5) {
			// the request reaches the peer, then its connection goes away; nobody
			// ever asks for the reply, the next request simply replaces it
			UAio u;
			submit(u, ci, ser++, 0, 3000);
			if (reap(u) == 0) {
				nng_msg *m = NULL;
				if (nng_recvmsg(rep, &m, 0) == 0) {
					nng_pipe pp = nng_msg_get_pipe(m);
					nng_msg_free(m);
					(void) nng_pipe_close(pp);
					sim_quiesce(5000000);
					dead++;
					sim_probe("c04_dead_connection_lost_after_send");
				}
			}
		}
		(void) stalled;
		// drain whatever reached the adversary meanwhile (never answered)
		for (;;) {
			nng_msg *m = NULL;
			if (nng_recvmsg(rep, &m, NNG_FLAG_NONBLOCK) != 0)
				break;
			nng_msg_free(m);
		}
		sim_quiesce(3000000);
		for (;;) {
			nng_msg *m = NULL;
			if (nng_recvmsg(rep, &m, NNG_FLAG_NONBLOCK) != 0)
				break;
			nng_msg_free(m);
		}
		// the live request of the same context
		uint32_t live = ser++;
		UAio     u;
		submit(u, ci, live, 0, 3000);
		if (reap(u) != 0)
			VIOL("request_send_failed", "ctx%d live send returned %d", ci, u.result);
		uint32_t pipe = 0, id = 0;
		bool     got = false;
		for (int k = 0; k < 8 && !got; k++) {
			nng_msg *m = NULL;
			if (nng_recvmsg(rep, &m, 0) != 0)
				break;
			const uint8_t *h = (const uint8_t *) nng_msg_header(m);
			const uint8_t *b = (const uint8_t *) nng_msg_body(m);
			if (nng_msg_header_len(m) == 8 && nng_msg_len(m) >= 6 && get32(b + 2) == live) {
				pipe = get32(h);
				id   = get32(h + 4);
				got  = true;
			}
			nng_msg_free(m);
		}
		if (!got)
			VIOL("request_lost", "the live request #%u of ctx%d never reached the connected peer", live, ci);
		// guesses at the ids of everything that died before it (ids are sequential)
		int ng = (int) W(1, 6);
		for (int k = 1; k <= ng; k++)
			adv_reply(&w, pipe, id - (uint32_t) k, 'S', NULL, 0);
		bool correct = W(0, 3) != 0;
		if (correct) {
			uint8_t echo[6] = { 'Q', (uint8_t) ci, 0, 0, 0, 0 };
			put32(echo + 2, live);
			adv_reply(&w, pipe, id, 'C', echo, 6);
		}
		UAio r;
		nng_aio_set_timeout(r.aio, correct ? 3000 : 40);
		r.arm("live_recv");
		if (ci == 0)
			nng_socket_recv(req, r.aio);
		else
			nng_ctx_recv(c[ci], r.aio);
		r.wait(0);
		if (r.result == 0) {
			nng_msg       *m = nng_aio_get_msg(r.aio);
			const uint8_t *b = (const uint8_t *) nng_msg_body(m);
			char           kind = nng_msg_len(m) >= 10 ? (char) b[1] : '?';
			uint32_t       used = nng_msg_len(m) >= 10 ? get32(b + 2) : 0;
			nng_msg_free(m);
			if (kind != 'C' || used != id)
				VIOL("reply_misrouted",
				    "ctx%d: reply addressed to id %08x (kind %c: the id of a request that was cancelled, timed "
				    "out or superseded) was delivered to the request with id %08x",
				    ci, used, kind, id);
			if (!correct)
				VIOL("reply_without_reply", "ctx%d received a reply although none was sent to its request", ci);
			if (W(0, 2) == 0)
				expect_estate(ci, "a completed exchange");
			if (W(0, 2) == 0) {
				// the exchange is complete; losing the connection afterwards does not make
				// a receive without a request anything but out-of-order use
				nng_pipe pp;
				memset(&pp, 0, sizeof(pp));
				pp.id = pipe;
				(void) nng_pipe_close(pp);
				sim_quiesce(5000000);
				expect_estate(ci, "a completed exchange whose connection was lost afterwards");
				sim_probe("c04_dead_loss_after_exchange");
			}
		} else if (correct && w.send_failed == 0) {
			VIOL("reply_not_delivered", "ctx%d: the correct reply was sent but receive returned %d", ci, r.result);
		}
		if (dead > 0)
			sim_stat("nontrivial", 1);
	}
	for (int i = 1; i < nctx; i++)
		MUST(nng_ctx_close(c[i]));
	MUST(nng_socket_close(req));
	MUST(nng_socket_close(rep));
}
static void
dead_cfg(sim_config *cfg, Params *p)
{
	(void) p;
	cfg->sndbuf_min = 64;
	cfg->sndbuf_max = 256;
	cfg->stall_p    = 0; // the scenario's "must succeed" steps use plain timeouts
}
SCENARIO(c04_dead, "C04", dead_cfg, dead_run);

// ===========================================================================
// B. cooked REP (socket + contexts) served to several raw requesters.
// request: header = backtrace words (last has the request bit), body 'Q' peer(1) serial(4)
// reply body must be 'A' peer serial, header must equal the backtrace sent.
// ===========================================================================
struct BWorld;
struct BPeer {
	BWorld     *w;
	int         idx;
	nng_socket  s;
	int         nreq;
	std::map<uint32_t, std::string> sent; // serial -> backtrace bytes
	std::set<uint32_t> answered;
	volatile int done;
	bool        closed_early;
};
struct BWorld {
	nng_socket          rep;
	std::vector<BPeer*> peers;
	volatile int        stop;
	int                 served;
};

static void
rep_peer(void *a)
{
	BPeer  *pr = (BPeer *) a;
	BWorld *w  = pr->w;
	for (int i = 0; i < pr->nreq; i++) {
		nng_msg *m = NULL;
		MUST(nng_msg_alloc(&m, 0));
		int         depth = (int) W(0, 3); // extra hop words before the request id
		std::string bt;
		for (int d = 0; d < depth; d++) {
			uint8_t wd[4];
			put32(wd, (uint32_t) W(1, 0x7ffffff));
			bt.append((char *) wd, 4);
		}
		uint8_t idw[4];
		put32(idw, 0x80000000u | ((uint32_t) pr->idx << 16) | (uint32_t) i);
		bt.append((char *) idw, 4);
		nng_msg_header_append(m, bt.data(), bt.size());
		uint8_t b[6] = { 'Q', (uint8_t) pr->idx };
		put32(b + 2, (uint32_t) i);
		nng_msg_append(m, b, 6);
		pr->sent[(uint32_t) i] = bt;
		sim_event("peer%d: request #%d depth %d", pr->idx, i, depth);
		int rv = nng_sendmsg(pr->s, m, 0);
		if (rv != 0) {
			nng_msg_free(m);
			break;
		}
		// collect replies for a while
		for (int k = 0; k < 3; k++) {
			nng_msg *r = NULL;
			if (nng_recvmsg(pr->s, &r, 0) != 0)
				break;
			// a raw REQ socket moves the first word into the header; the rest
			// of the backtrace is still in front of the payload
			std::string full((const char *) nng_msg_header(r), nng_msg_header_len(r));
			full.append((const char *) nng_msg_body(r), nng_msg_len(r));
			if (full.size() < 6 + 4 || full[full.size() - 6] != 'A')
				VIOL("altered_message", "peer%d received a malformed reply (%zu bytes)", pr->idx, full.size());
			const uint8_t *rb = (const uint8_t *) full.data() + full.size() - 6;
			size_t         hl = full.size() - 6;
			const uint8_t *h  = (const uint8_t *) full.data();
			int      rp  = rb[1];
			uint32_t ser = get32(rb + 2);
			if (rp != pr->idx)
				VIOL("reply_to_wrong_connection", "peer%d received the reply to peer%d's request #%u", pr->idx, rp, ser);
			auto it = pr->sent.find(ser);
			if (it == pr->sent.end())
				VIOL("reply_to_wrong_connection", "peer%d received a reply to a request #%u it never sent", pr->idx, ser);
			if (std::string((const char *) h, hl) != it->second)
				VIOL("wrong_backtrace", "peer%d: reply to #%u carries backtrace %s, request had %s", pr->idx, ser,
				    h_hex(h, hl).c_str(), h_hex((const uint8_t *) it->second.data(), it->second.size()).c_str());
			if (!pr->answered.insert(ser).second)
				VIOL("reply_twice", "peer%d: request #%u answered twice", pr->idx, ser);
			nng_msg_free(r);
			sim_stat("replies_delivered", 1);
			if (W(0, 1))
				break;
		}
		if (pr->closed_early && i == pr->nreq / 2) {
			sim_event("peer%d: closing early", pr->idx);
			break;
		}
	}
	pr->done = 1;
}

struct BCtx {
	BWorld *w;
	int     idx;
	bool    is_sock;
	nng_ctx ctx;
};

static void
rep_server(void *a)
{
	BCtx   *c = (BCtx *) a;
	BWorld *w = c->w;
	// send before receive must fail
	{
		nng_msg *m = NULL;
		MUST(nng_msg_alloc(&m, 1));
		int rv = c->is_sock ? nng_sendmsg(w->rep, m, 0) : nng_ctx_sendmsg(c->ctx, m, 0);
		if (rv == 0)
			VIOL("send_before_recv_ok", "rep ctx%d: send before any receive succeeded", c->idx);
		nng_msg_free(m);
		if (rv != NNG_ESTATE)
			VIOL("send_before_recv_not_estate", "rep ctx%d: send before receive returned %d, expected NNG_ESTATE", c->idx, rv);
	}
	while (!w->stop) {
		nng_msg *m = NULL;
		int      rv;
		if (c->is_sock) {
			rv = nng_recvmsg(w->rep, &m, 0);
		} else {
			UAio u;
			nng_aio_set_timeout(u.aio, 20);
			u.arm("rep_recv");
			nng_ctx_recv(c->ctx, u.aio);
			u.wait(0);
			rv = u.result;
			if (rv == 0)
				m = nng_aio_get_msg(u.aio);
		}
		if (rv != 0)
			continue;
		const uint8_t *b = (const uint8_t *) nng_msg_body(m);
		if (nng_msg_len(m) != 6 || b[0] != 'Q')
			VIOL("altered_message", "rep ctx%d received a malformed request", c->idx);
		int      peer = b[1];
		uint32_t ser  = get32(b + 2);
		nng_msg_free(m);
		sim_event("rep ctx%d: got request peer%d#%u", c->idx, peer, ser);
		if (W(0, 3) == 0)
			sim_sleep_ns((uint64_t) W(0, 5000) * 1000);
		if (W(0, 9) == 0) {
			// drop this request: receive the next one instead (reply goes to the latest)
			sim_probe("c04_rep_skipped_reply");
			continue;
		}
		nng_msg *r = NULL;
		MUST(nng_msg_alloc(&r, 0));
		uint8_t rb[6] = { 'A', (uint8_t) peer };
		put32(rb + 2, ser);
		nng_msg_append(r, rb, 6);
		rv = c->is_sock ? nng_sendmsg(w->rep, r, 0) : nng_ctx_sendmsg(c->ctx, r, 0);
		if (rv != 0) {
			nng_msg_free(r);
			sim_probe("c04_rep_send_failed");
		} else {
			w->served++;
			// a second send for the same request must fail
			if (W(0, 2) == 0) {
				nng_msg *r2 = NULL;
				MUST(nng_msg_alloc(&r2, 0));
				nng_msg_append(r2, rb, 6);
				int rv2 = c->is_sock ? nng_sendmsg(w->rep, r2, 0) : nng_ctx_sendmsg(c->ctx, r2, 0);
				if (rv2 == 0)
					VIOL("second_reply_ok", "rep ctx%d: a second reply to one request was accepted", c->idx);
				nng_msg_free(r2);
				if (rv2 != NNG_ESTATE)
					VIOL("second_reply_not_estate", "rep ctx%d: second send returned %d, expected NNG_ESTATE", c->idx, rv2);
			}
		}
	}
}

static void
repatk_run(Params *p)
{
	BWorld w;
	int    np   = (int) W(1, 3);
	int    nctx = (int) W(0, 2);
	int    tr   = (int) p->draw("tr", 0, 2);
	w.stop   = 0;
	w.served = 0;
	MUST(nng_rep0_open(&w.rep));
	MUST(nng_socket_set_ms(w.rep, NNG_OPT_RECVTIMEO, 20));
	MUST(nng_socket_set_ms(w.rep, NNG_OPT_SENDTIMEO, 1000));
	std::string url = h_url(tr, 60);
	MUST(nng_listen(w.rep, url.c_str(), NULL, 0));
	std::vector<BCtx *> ctxs;
	for (int i = 0; i <= nctx; i++) {
		BCtx *c    = new BCtx();
		c->w       = &w;
		c->idx     = i;
		c->is_sock = i == 0;
		if (i > 0)
			MUST(nng_ctx_open(&c->ctx, w.rep));
		ctxs.push_back(c);
	}
	for (int i = 0; i < np; i++) {
		BPeer *pr = new BPeer();
		pr->w     = &w;
		pr->idx   = i;
		pr->nreq  = (int) W(1, 8);
		pr->done  = 0;
		pr->closed_early = W(0, 4) == 0;
		MUST(nng_req0_open_raw(&pr->s));
		MUST(nng_socket_set_ms(pr->s, NNG_OPT_RECVTIMEO, (nng_duration) W(5, 40)));
		MUST(nng_socket_set_ms(pr->s, NNG_OPT_SENDTIMEO, 1000));
		MUST(nng_dial(pr->s, url.c_str(), NULL, 0));
		w.peers.push_back(pr);
	}
	sim_quiesce(10000000);
	sim_event("c04_repatk tr=%s peers=%d ctxs=%d", h_tr_name(tr), np, nctx + 1);
	std::vector<int> srv;
	for (auto c : ctxs)
		srv.push_back(sim_spawn("repsrv", rep_server, c, 0));
	std::vector<int> pts;
	for (auto pr : w.peers)
		pts.push_back(sim_spawn("peer", rep_peer, pr, 0));
	for (size_t i = 0; i < w.peers.size(); i++) {
		sim_join(pts[i]);
		if (w.peers[i]->closed_early) {
			// the connection dies; replies still in the pipeline must reach nobody else
			MUST(nng_socket_close(w.peers[i]->s));
		}
	}
	sim_sleep_ms(60);
	// surviving peers: drain late replies, still must be their own
	for (auto pr : w.peers) {
		if (pr->closed_early)
			continue;
		for (;;) {
			nng_msg *r = NULL;
			if (nng_recvmsg(pr->s, &r, 0) != 0)
				break;
			size_t bl = nng_msg_len(r);
			if (bl < 6)
				VIOL("altered_message", "peer%d received a malformed reply", pr->idx);
			const uint8_t *rb = (const uint8_t *) nng_msg_body(r) + bl - 6;
			if (rb[0] != 'A' || rb[1] != pr->idx)
				VIOL("reply_to_wrong_connection", "peer%d received a reply that is not its own", pr->idx);
			uint32_t ser = get32(rb + 2);
			if (!pr->answered.insert(ser).second)
				VIOL("reply_twice", "peer%d: request #%u answered twice", pr->idx, ser);
			nng_msg_free(r);
		}
	}
	w.stop = 1;
	sim_join_all();
	if (w.served > 0)
		sim_stat("nontrivial", 1);
	for (auto pr : w.peers) {
		if (!pr->closed_early)
			MUST(nng_socket_close(pr->s));
		delete pr;
	}
	for (size_t i = 1; i < ctxs.size(); i++)
		MUST(nng_ctx_close(ctxs[i]->ctx));
	MUST(nng_socket_close(w.rep));
	for (auto c : ctxs)
		delete c;
}
SCENARIO(c04_repatk, "C04", net_cfg, repatk_run);

// ---------------------------------------------------------------------------
// B'. "send before receive fails with NNG_ESTATE" when the requester has gone
// away: the reply to a request whose connection is lost is silently dropped
// (send succeeds), and that consumes the request like any other reply.
static void
gone_run(Params *p)
{
	nng_socket rep;
	MUST(nng_rep0_open(&rep));
	MUST(nng_socket_set_ms(rep, NNG_OPT_RECVTIMEO, 2000));
	MUST(nng_socket_set_ms(rep, NNG_OPT_SENDTIMEO, 500));
	int         tr  = (int) p->draw("tr", 0, 2);
	std::string url = h_url(tr, 59);
	MUST(nng_listen(rep, url.c_str(), NULL, 0));
	bool    use_ctx = W(0, 1) != 0;
	nng_ctx cx;
	if (use_ctx)
		MUST(nng_ctx_open(&cx, rep));
	int rounds = 1 + (int) W(0, 2);
	for (int r = 0; r < rounds; r++) {
		nng_socket req;
		MUST(nng_req0_open_raw(&req));
		MUST(nng_socket_set_ms(req, NNG_OPT_SENDTIMEO, 1000));
		MUST(nng_dial(req, url.c_str(), NULL, 0));
		nng_msg *q = NULL;
		MUST(nng_msg_alloc(&q, 0));
		MUST(nng_msg_header_append_u32(q, 0x80000000u | (uint32_t) (r + 1)));
		MUST(nng_msg_append(q, "ping", 4));
		MUST(nng_sendmsg(req, q, 0));
		nng_msg *m = NULL;
		int      rv = use_ctx ? nng_ctx_recvmsg(cx, &m, 0) : nng_recvmsg(rep, &m, 0);
		if (rv != 0)
			VIOL("request_lost", "REP did not receive the request of a connected requester (%d)", rv);
		nng_msg_free(m);
		// the requester goes away: before the reply, or not at all
		bool gone = W(0, 3) != 0;
		if (gone) {
			MUST(nng_socket_close(req));
			if (W(0, 1))
				sim_quiesce(5000000);
		}
		int sends = 2 + (int) W(0, 1);
		for (int k = 0; k < sends; k++) {
			nng_msg *a = NULL;
			MUST(nng_msg_alloc(&a, 0));
			MUST(nng_msg_append(a, "pong", 4));
			rv = use_ctx ? nng_ctx_sendmsg(cx, a, 0) : nng_sendmsg(rep, a, 0);
			if (rv != 0)
				nng_msg_free(a);
			sim_event("round %d gone=%d send %d -> %d", r, (int) gone, k, rv);
			if (k == 0) {
				if (rv == NNG_ESTATE)
					VIOL("reply_refused", "REP holds a request, yet its reply was refused with NNG_ESTATE");
			} else {
				if (rv == 0)
					VIOL("second_reply_ok",
					    "REP %s answered its request (requester %s) and send number %d without a new receive "
					    "succeeded; it must fail with NNG_ESTATE",
					    use_ctx ? "context" : "socket", gone ? "gone" : "connected", k + 1);
				if (rv != NNG_ESTATE)
					VIOL("second_reply_not_estate", "send without a receive returned %d, expected NNG_ESTATE", rv);
			}
		}
		if (!gone)
			MUST(nng_socket_close(req));
		sim_quiesce(3000000);
		sim_stat("nontrivial", 1);
	}
	if (use_ctx)
		MUST(nng_ctx_close(cx));
	MUST(nng_socket_close(rep));
}
SCENARIO(c04_gone, "C04", NULL, gone_run);

} // namespace
