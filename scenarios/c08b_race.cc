// C08 (second file): several peers connect to one PAIR socket at the same
// instant through different endpoints (several listeners, or several dialers
// of the PAIR socket).  At most one of them may end up connected, and only
// that one may exchange messages with the socket.
#include "../harness/util.h"

#include <set>

namespace {

struct RaceMon {
	int                active, max_active;
	uint32_t           last_id;
	std::set<uint32_t> admitted; // pipes that reached ADD_POST
};

static void
race_pipe_cb(nng_pipe p, nng_pipe_ev ev, void *arg)
{
	RaceMon *m = (RaceMon *) arg;
	(void) p;
	if (ev == NNG_PIPE_EV_ADD_POST) {
		m->active++;
		m->last_id = (uint32_t) nng_pipe_id(p);
		m->admitted.insert(m->last_id);
		if (m->active > m->max_active)
			m->max_active = m->active;
	} else if (ev == NNG_PIPE_EV_REM_POST) {
		if (m->active > 0 && (uint32_t) nng_pipe_id(p) == m->last_id)
			m->active--;
	}
}

static void
race_run(Params *p)
{
	int        ver = (int) W(0, 1);
	int        k   = 2 + (int) W(0, 2);
	int        tr  = (int) p->draw("tr", 0, 2); // inproc, tcp, ipc
	bool       a_listens = W(0, 3) != 0;
	nng_socket A;
	RaceMon    mon;
	mon.active = mon.max_active = 0;
	mon.last_id                 = 0;
	MUST(ver ? nng_pair1_open(&A) : nng_pair0_open(&A));
	MUST(nng_pipe_notify(A, NNG_PIPE_EV_ADD_POST, race_pipe_cb, &mon));
	MUST(nng_pipe_notify(A, NNG_PIPE_EV_REM_POST, race_pipe_cb, &mon));
	MUST(nng_socket_set_int(A, NNG_OPT_RECVBUF, 8));
	std::vector<nng_socket> peers((size_t) k);
	std::vector<std::string> urls;
	for (int i = 0; i < k; i++) {
		urls.push_back(h_url(tr, 60 + i));
		MUST(ver ? nng_pair1_open(&peers[(size_t) i]) : nng_pair0_open(&peers[(size_t) i]));
		MUST(nng_socket_set_ms(peers[(size_t) i], NNG_OPT_RECONNMINT, 20)); // everybody retries in step
		MUST(nng_socket_set_ms(peers[(size_t) i], NNG_OPT_RECONNMAXT, 20));
		MUST(nng_socket_set_int(peers[(size_t) i], NNG_OPT_SENDBUF, 2));
	}
	MUST(nng_socket_set_ms(A, NNG_OPT_RECONNMINT, 20));
	MUST(nng_socket_set_ms(A, NNG_OPT_RECONNMAXT, 20));
	// listeners first, then all dials back to back without waiting
	for (int i = 0; i < k; i++)
		MUST(nng_listen(a_listens ? A : peers[(size_t) i], urls[(size_t) i].c_str(), NULL, 0));
	for (int i = 0; i < k; i++)
		MUST(nng_dial(a_listens ? peers[(size_t) i] : A, urls[(size_t) i].c_str(), NULL, NNG_FLAG_NONBLOCK));
	sim_event("c08_race pair%d tr=%s peers=%d %s", ver, h_tr_name(tr), k, a_listens ? "A listens" : "A dials");
	// rounds: whenever the connected peer is dropped everybody races for the free place again
	int rounds = 1 + (int) W(0, 4);
	for (int r = 0; r < rounds; r++) {
		sim_sleep_ms(15 + (uint64_t) W(0, 30));
		if (mon.max_active > 1)
			VIOL("two_peers_connected", "pair%d: %d pipes were connected to one PAIR socket at the same time (%d "
			                            "peers connecting simultaneously through %d endpoints, round %d)",
			    ver, mon.max_active, k, k, r);
		if (r + 1 < rounds && mon.active > 0) {
			nng_pipe pp;
			pp.id = mon.last_id;
			sim_event("round %d: dropping pipe %u", r, pp.id);
			(void) nng_pipe_close(pp);
		}
	}
	sim_sleep_ms(30);
	if (mon.max_active > 1)
		VIOL("two_peers_connected", "pair%d: %d pipes were connected to one PAIR socket at the same time (%d peers "
		                            "connecting simultaneously through %d endpoints)",
		    ver, mon.max_active, k, k);
	// freeze the membership: nobody redials any more
	if (mon.active == 0)
		sim_probe("c08_race_nobody_connected");
	// every peer talks; whatever reaches A came over a pipe that A had admitted
	// (ADD_POST), never over one it refused -- and admitted pipes are never
	// concurrent (checked above).  Peers may be heard one after the other when a
	// dropped pipe is still being torn down while the sends are made.
	for (int i = 0; i < k; i++) {
		for (int j = 0; j < 2; j++) {
			nng_msg *m = tag_msg(24, (uint16_t) (i + 1), 0, (uint32_t) j);
			if (nng_sendmsg(peers[(size_t) i], m, NNG_FLAG_NONBLOCK) != 0)
				nng_msg_free(m);
		}
	}
	sim_sleep_ms(10);
	std::set<int> heard;
	std::vector<std::pair<uint32_t, int>> vias;
	for (;;) {
		nng_msg *m = NULL;
		if (nng_recvmsg(A, &m, NNG_FLAG_NONBLOCK) != 0)
			break;
		Tag      t   = tag_parse((const uint8_t *) nng_msg_body(m), nng_msg_len(m));
		uint32_t via = (uint32_t) nng_pipe_id(nng_msg_get_pipe(m));
		nng_msg_free(m);
		if (!t.ok)
			VIOL("corrupt_message", "A received a damaged message");
		heard.insert((int) t.origin);
		vias.push_back(std::make_pair(via, (int) t.origin));
	}
	// (the protocol may hand a message up before the thread that admitted the
	// pipe has got round to the ADD_POST callback -- it may be stalled; what
	// counts is that the pipe is one that was admitted)
	{
		uint64_t s0 = sim_stall_total_ns();
		sim_sleep_ms(50);
		for (int g = 0; g < 20 && sim_stall_total_ns() != s0; g++) {
			s0 = sim_stall_total_ns();
			sim_sleep_ms(50);
		}
	}
	for (auto &v : vias)
		if (mon.admitted.count(v.first) == 0)
			VIOL("message_from_refused_peer",
			    "pair%d: a message of peer %d was delivered over pipe %u, which the PAIR socket never admitted "
			    "(no ADD_POST): it had another peer at the time",
			    ver, v.second, v.first);
	if (mon.max_active > 1)
		VIOL("two_peers_connected", "pair%d: %d pipes were connected to one PAIR socket at the same time", ver,
		    mon.max_active);
	if (heard.size() > 1)
		sim_probe("c08_race_heard_successive_peers");
	if (mon.max_active == 1)
		sim_stat("nontrivial", 1);
	for (auto s : peers)
		MUST(nng_socket_close(s));
	MUST(nng_socket_close(A));
}
SCENARIO(c08_race, "C08", NULL, race_run);

} // namespace
