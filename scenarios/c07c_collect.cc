// C07 (third file): the "collect until it times out" loop of a surveyor
// application: ONE aio whose timeout is set once, used for every receive of
// every survey; respondents answer after arbitrary delays, some too late.
// Clauses: only responses to the most recent survey, only until its deadline;
// a receive pending at the deadline fails with NNG_ETIMEDOUT (it does not stay
// pending); receive with no live survey fails with NNG_ESTATE.
#include "../harness/util.h"

namespace {

#define MS 1000000ull

struct Resp {
	nng_socket   s;
	int          idx;
	int          st_ms;
	volatile int stop;
	uint64_t     sent_at[16]; // per survey round: when the answer was handed to nng_sendmsg
};

static void
responder(void *a)
{
	Resp *r = (Resp *) a;
	while (!r->stop) {
		nng_msg *m = NULL;
		int      rv = nng_recvmsg(r->s, &m, 0);
		if (rv == NNG_ETIMEDOUT)
			continue;
		if (rv != 0)
			break;
		Tag t = tag_parse((const uint8_t *) nng_msg_body(m), nng_msg_len(m));
		nng_msg_free(m);
		if (!t.ok)
			continue;
		long sel = W(0, 5);
		// most answers come in time, some near the deadline, some after it
		long d_us = sel <= 2 ? W(0, 300) : sel <= 4 ? W(0, (long) r->st_ms * 1000) : W((long) r->st_ms * 900, (long) r->st_ms * 1400);
		sim_sleep_ns((uint64_t) d_us * 1000);
		nng_msg *o = tag_msg((size_t) W(24, 80), (uint16_t) (10 + r->idx), t.stream, t.serial);
		if (t.stream < 16)
			r->sent_at[t.stream] = sim_now_ns();
		if (nng_sendmsg(r->s, o, 0) != 0)
			nng_msg_free(o);
	}
}

static void
collect_cfg(sim_config *cfg, Params *p)
{
	(void) p;
	cfg->stall_p = 0; // deadlines are judged against the virtual clock
}

static void
collect_run(Params *p)
{
	static const int STS[] = { 30, 100, 300 };
	int        st   = STS[p->draw("st", 0, 2)];
	int        tr   = (int) p->draw("tr", 0, 2);
	bool       ctxm = p->draw("ctx", 0, 1) != 0;
	nng_socket S;
	nng_ctx    C;
	MUST(nng_surveyor0_open(&S));
	MUST(nng_socket_set_ms(S, NNG_OPT_SURVEYOR_SURVEYTIME, st));
	MUST(nng_socket_set_int(S, NNG_OPT_RECVBUF, 16));
	if (ctxm)
		MUST(nng_ctx_open(&C, S));
	std::string url = h_url(tr, 77);
	MUST(nng_listen(S, url.c_str(), NULL, 0));
	int               nr = 1 + (int) W(0, 2);
	std::vector<Resp> rs((size_t) nr);
	for (int i = 0; i < nr; i++) {
		rs[(size_t) i].idx   = i;
		rs[(size_t) i].st_ms = st;
		rs[(size_t) i].stop  = 0;
		memset(rs[(size_t) i].sent_at, 0, sizeof(rs[(size_t) i].sent_at));
		MUST(nng_respondent0_open(&rs[(size_t) i].s));
		MUST(nng_socket_set_ms(rs[(size_t) i].s, NNG_OPT_RECVTIMEO, 50));
		MUST(nng_socket_set_ms(rs[(size_t) i].s, NNG_OPT_SENDTIMEO, 1000));
		MUST(nng_dial(rs[(size_t) i].s, url.c_str(), NULL, 0));
	}
	sim_quiesce(20000000);
	for (int i = 0; i < nr; i++)
		sim_spawn("responder", responder, &rs[(size_t) i], 0);

	// the one aio; its timeout is set here and never again
	UAio u;
	long tsel = W(0, 6);
	int  tmo  = tsel == 0 ? -1 : tsel <= 2 ? st / 3 : tsel == 3 ? st / 2 : tsel == 4 ? st : tsel == 5 ? 2 * st : (int) W(1, 2 * st);
	nng_aio_set_timeout(u.aio, tmo < 0 ? NNG_DURATION_INFINITE : (nng_duration) tmo);
	sim_event("c07_collect st=%d ms aio timeout %d ms tr=%s resp=%d %s", st, tmo, h_tr_name(tr), nr, ctxm ? "ctx" : "socket");

	int rounds = 2 + (int) W(0, 3);
	int got_total = 0, pending_at_deadline = 0;
	for (int round = 1; round <= rounds; round++) {
		nng_msg *sv = tag_msg(32, 1, (uint16_t) round, (uint32_t) round);
		uint64_t t0 = sim_now_ns();
		int      rv = ctxm ? nng_ctx_sendmsg(C, sv, 0) : nng_sendmsg(S, sv, 0);
		uint64_t t1 = sim_now_ns();
		if (rv != 0)
			h_fatal("survey send: %s", nng_strerror((nng_err) rv));
		// nng's clock counts whole milliseconds: the deadline it computes lies in
		// [floor(t0), floor(t1)] + st, and it compares floor(now) with it
		uint64_t d_lo = (t0 / MS + (uint64_t) st) * MS, d_hi = (t1 / MS + (uint64_t) st + 1) * MS;
		sim_event("survey %d sent at %.3f ms", round, (double) t0 / 1e6);
		bool failed = false; // a receive of this survey has failed
		for (int k = 0; k < 14; k++) {
			long ssel = W(0, 5);
			if (ssel <= 1)
				sim_sleep_ns((uint64_t) W(0, (long) st * 600) * 1000); // let answers pile up
			else if (ssel == 2)
				sim_sleep_ns((uint64_t) W(0, (long) st * 1300) * 1000); // ... sometimes beyond the deadline
			uint64_t inv = sim_now_ns();
			u.arm("collect_recv");
			if (ctxm)
				nng_ctx_recv(C, u.aio);
			else
				nng_socket_recv(S, u.aio);
			// it has to be over 50 ms after the deadline at the latest
			uint64_t until = std::max(inv, d_hi) + 50 * MS;
			bool     was_pending = !u.poll();
			if (u.wait(until - sim_now_ns() + 1) == (nng_err) -1) {
				VIOL("deadline_no_timeout",
				    "survey %d (deadline %.3f ms): a receive invoked at %.3f ms with the aio's timeout of %d ms (set "
				    "once, the aio is reused) is still pending at %.3f ms",
				    round, (double) d_hi / 1e6, (double) inv / 1e6, tmo, (double) sim_now_ns() / 1e6);
			}
			uint64_t done = u.t_done_ns;
			rv            = u.result;
			if (rv == 0) {
				nng_msg *m = nng_aio_get_msg(u.aio);
				Tag      t = tag_parse((const uint8_t *) nng_msg_body(m), nng_msg_len(m));
				nng_msg_free(m);
				if (!t.ok)
					VIOL("corrupt_message", "damaged response");
				if ((int) t.stream != round)
					VIOL("stale_response", "survey %d is the current one but a response to survey %u was delivered",
					    round, (unsigned) t.stream);
				// (the completion callback may run any time after nng decided to
				// deliver, so lateness is judged by when the answer was sent)
				uint64_t sent = t.origin >= 10 && t.origin < 10 + nr ? rs[(size_t) (t.origin - 10)].sent_at[round] : 0;
				// (20 ms: the same allowance as c07_surv for the timer that ends the
				// survey inside nng to get scheduled)
				if (inv > d_hi)
					VIOL("recv_after_deadline", "a receive invoked after the deadline of survey %d returned a response", round);
				if (sent > d_hi + 20 * MS)
					VIOL("late_response",
					    "a response to survey %d that its respondent sent %.3f ms after the deadline was delivered", round,
					    (double) (sent - d_hi) / 1e6);
				if (done > d_hi)
					sim_probe("c07_collect_completion_after_deadline");
				if (failed)
					sim_probe("c07_collect_delivery_after_failed_recv");
				got_total++;
				if (!was_pending)
					sim_probe("c07_collect_served_from_buffer");
				continue;
			}
			if (rv == NNG_ETIMEDOUT) {
				uint64_t bound = d_lo;
				if (tmo >= 0)
					bound = std::min(bound, (uint64_t) (inv + (uint64_t) tmo * MS));
				if (done < bound) // "never before the configured duration" is C02's clause, judged by the aio monitor
					sim_probe("c07_collect_timeout_before_bound");
				if (inv > d_hi)
					VIOL("expired_survey_not_estate", "receive invoked after the deadline of survey %d timed out instead of failing NNG_ESTATE", round);
				if (done >= d_lo)
					pending_at_deadline++;
				failed = true;
				if (done >= d_lo || W(0, 1))
					break;
				continue; // own timeout before the deadline: some applications try again
			}
			if (rv == NNG_ESTATE) {
				if (!failed && done < d_lo)
					VIOL("estate_with_live_survey", "survey %d is live until %.3f ms but receive failed NNG_ESTATE at %.3f ms",
					    round, (double) d_lo / 1e6, (double) done / 1e6);
				break;
			}
			VIOL("recv_unexpected_error", "receive failed with %d (%s)", rv, nng_strerror((nng_err) rv));
		}
		if (W(0, 2) == 0)
			sim_sleep_ns((uint64_t) W(0, (long) st * 500) * 1000);
	}
	// no survey is live once the last deadline has passed
	sim_sleep_ns((uint64_t) st * 2 * MS);
	{
		u.arm("collect_recv_after");
		if (ctxm)
			nng_ctx_recv(C, u.aio);
		else
			nng_socket_recv(S, u.aio);
		if (u.wait(200 * MS) == (nng_err) -1)
			VIOL("no_survey_not_estate", "receive with no live survey stays pending instead of failing NNG_ESTATE");
		if (u.result == 0) {
			nng_msg_free(nng_aio_get_msg(u.aio));
			VIOL("late_response", "a response was delivered long after the last survey's deadline");
		}
		if (u.result != NNG_ESTATE)
			VIOL("no_survey_not_estate", "receive with no live survey failed with %d, not NNG_ESTATE", (int) u.result);
	}
	if (got_total > 0 && pending_at_deadline > 0)
		sim_stat("nontrivial", 1);
	for (auto &r : rs)
		r.stop = 1;
	sim_join_all();
	if (ctxm)
		MUST(nng_ctx_close(C));
	MUST(nng_socket_close(S));
	for (auto &r : rs)
		MUST(nng_socket_close(r.s));
}
SCENARIO(c07_collect, "C07", collect_cfg, collect_run);

} // namespace

// ---------------------------------------------------------------------------
// c07_manyctx: hundreds of surveyor contexts whose surveys end in the same few
// milliseconds.  "A receive still pending at the deadline fails with
// NNG_ETIMEDOUT" -- every one of them, however many deadlines fall together.
namespace {

static void
manyctx_run(Params *p)
{
	(void) p;
	nng_socket S;
	MUST(nng_surveyor0_open(&S));
	static const int STS[] = { 20, 50, 120 };
	int              st    = STS[W(0, 2)];
	MUST(nng_socket_set_ms(S, NNG_OPT_SURVEYOR_SURVEYTIME, st));
	int                  n = (int) W(150, 260);
	std::vector<nng_ctx> cs((size_t) n);
	std::vector<UAio *>  us((size_t) n);
	uint64_t             t_first = 0, t_last = 0;
	for (int i = 0; i < n; i++) {
		MUST(nng_ctx_open(&cs[(size_t) i], S));
		us[(size_t) i] = new UAio();
	}
	for (int i = 0; i < n; i++) {
		nng_msg *m = tag_msg(24, 1, 0, (uint32_t) i);
		if (i == 0)
			t_first = sim_now_ns();
		int rv = nng_ctx_sendmsg(cs[(size_t) i], m, 0);
		if (rv != 0)
			h_fatal("survey send: %d", rv);
		t_last = sim_now_ns();
		nng_aio_set_timeout(us[(size_t) i]->aio, W(0, 3) == 0 ? (nng_duration) (3 * st) : NNG_DURATION_INFINITE);
		us[(size_t) i]->arm("manyctx_recv");
		nng_ctx_recv(cs[(size_t) i], us[(size_t) i]->aio);
	}
	sim_event("c07_manyctx: %d contexts, survey time %d ms, surveys sent within %.3f ms", n, st, (double) (t_last - t_first) / 1e6);
	// (no thread stalls are injected here: see the cfg function)
	uint64_t until = (t_last / 1000000ull + (uint64_t) st + 1) * 1000000ull + 100 * 1000000ull;
	if (sim_now_ns() < until)
		sim_sleep_ns(until - sim_now_ns());
	int pending = 0, wrong = 0;
	for (int i = 0; i < n; i++) {
		if (!us[(size_t) i]->poll())
			pending++;
		else if (us[(size_t) i]->result != NNG_ETIMEDOUT)
			wrong++;
	}
	if (pending > 0)
		VIOL("deadline_no_timeout",
		    "%d of %d surveyor contexts: the receive is still pending 100 ms after the deadline of its survey (survey time "
		    "%d ms, all deadlines within %.3f ms of each other)",
		    pending, n, st, (double) (t_last - t_first) / 1e6);
	if (wrong > 0)
		VIOL("recv_unexpected_error", "%d of %d receives pending at the deadline ended with something other than NNG_ETIMEDOUT", wrong, n);
	sim_stat("nontrivial", 1);
	for (int i = 0; i < n; i++) {
		delete us[(size_t) i];
		MUST(nng_ctx_close(cs[(size_t) i]));
	}
	MUST(nng_socket_close(S));
}
SCENARIO(c07_manyctx, "C07", collect_cfg, manyctx_run);

} // namespace

// ---------------------------------------------------------------------------
// c07_dblsend: two application threads answer the same survey on the same
// respondent socket or context at the same time.  One response per survey:
// "sending a response with no pending survey fails with NNG_ESTATE".
namespace {

struct DblArg {
	nng_socket r;
	nng_ctx    c;
	bool       use_ctx;
	int        round, who;
	int        rv;
};

static void
dbl_sender(void *a)
{
	DblArg  *d = (DblArg *) a;
	nng_msg *m = tag_msg(30, (uint16_t) (20 + d->who), (uint16_t) d->round, (uint32_t) d->round);
	if (W(0, 1))
		sim_yield();
	d->rv = d->use_ctx ? nng_ctx_sendmsg(d->c, m, 0) : nng_sendmsg(d->r, m, 0);
	if (d->rv != 0)
		nng_msg_free(m);
}

static void
dblsend_run(Params *p)
{
	int        tr = (int) p->draw("tr", 0, 2);
	nng_socket S, R;
	MUST(nng_surveyor0_open(&S));
	MUST(nng_respondent0_open(&R));
	MUST(nng_socket_set_ms(S, NNG_OPT_SURVEYOR_SURVEYTIME, 2000));
	MUST(nng_socket_set_ms(S, NNG_OPT_RECVTIMEO, 300));
	MUST(nng_socket_set_ms(R, NNG_OPT_RECVTIMEO, 2000));
	MUST(nng_socket_set_ms(R, NNG_OPT_SENDTIMEO, 2000));
	std::string url = h_url(tr, 78);
	MUST(nng_listen(S, url.c_str(), NULL, 0));
	MUST(nng_dial(R, url.c_str(), NULL, 0));
	sim_quiesce(20000000);
	bool    use_ctx = W(0, 1) != 0;
	nng_ctx c;
	if (use_ctx)
		MUST(nng_ctx_open(&c, R));
	int rounds = 2 + (int) W(0, 6);
	for (int round = 1; round <= rounds; round++) {
		nng_msg *sv = tag_msg(24, 1, (uint16_t) round, (uint32_t) round);
		MUST(nng_sendmsg(S, sv, 0));
		nng_msg *q  = NULL;
		int      rv = use_ctx ? nng_ctx_recvmsg(c, &q, 0) : nng_recvmsg(R, &q, 0);
		if (rv != 0)
			h_fatal("respondent receive: %d", rv);
		nng_msg_free(q);
		DblArg a[2];
		int    t[2];
		for (int k = 0; k < 2; k++) {
			a[k].r       = R;
			a[k].c       = c;
			a[k].use_ctx = use_ctx;
			a[k].round   = round;
			a[k].who     = k;
			a[k].rv      = -1;
			t[k]         = sim_spawn("dblsend", dbl_sender, &a[k], 0);
		}
		sim_join(t[0]);
		sim_join(t[1]);
		int ok = (a[0].rv == 0) + (a[1].rv == 0), est = (a[0].rv == NNG_ESTATE) + (a[1].rv == NNG_ESTATE);
		sim_event("round %d: sends returned %d and %d", round, a[0].rv, a[1].rv);
		if (ok == 2)
			VIOL("second_response_ok",
			    "one survey was received and two threads each sent a response on the same respondent %s: both sends "
			    "returned success, neither NNG_ESTATE",
			    use_ctx ? "context" : "socket");
		if (ok != 1 || est != 1)
			VIOL("send_unexpected_error", "two concurrent responses to one survey returned %d and %d", a[0].rv, a[1].rv);
		// the surveyor sees exactly one response
		int got = 0;
		for (;;) {
			nng_msg *m = NULL;
			if (nng_recvmsg(S, &m, 0) != 0)
				break;
			nng_msg_free(m);
			got++;
			if (got == 1)
				MUST(nng_socket_set_ms(S, NNG_OPT_RECVTIMEO, 30));
		}
		MUST(nng_socket_set_ms(S, NNG_OPT_RECVTIMEO, 300));
		if (got > 1)
			VIOL("duplicate_response", "the surveyor received %d responses from one respondent to one survey", got);
	}
	sim_stat("nontrivial", 1);
	if (use_ctx)
		MUST(nng_ctx_close(c));
	MUST(nng_socket_close(R));
	MUST(nng_socket_close(S));
}
SCENARIO(c07_dblsend, "C07", NULL, dblsend_run);

} // namespace
