// C15 (second file): a cooked REP socket against a raw REQ peer that pipelines
// requests and does not read the replies, so that replies pile up on the
// connection.  At every quiescent point the send descriptor and the result
// of a non-blocking send must agree, in both directions.
#include "../harness/util.h"

namespace {

static void
pl_run(Params *p)
{
	nng_socket rep, req;
	int        tr = (int) p->draw("tr", 0, 2);
	MUST(nng_rep0_open(&rep));
	MUST(nng_req0_open_raw(&req));
	MUST(nng_socket_set_int(req, NNG_OPT_RECVBUF, (int) W(0, 1)));
	MUST(nng_socket_set_int(req, NNG_OPT_SENDBUF, 8));
	MUST(nng_socket_set_ms(req, NNG_OPT_SENDTIMEO, 1000));
	std::string url = h_url(tr, 12);
	MUST(nng_listen(rep, url.c_str(), NULL, 0));
	MUST(nng_dial(req, url.c_str(), NULL, 0));
	sim_quiesce(20000000);
	int sfd = -1, rfd = -1;
	MUST(nng_socket_get_send_poll_fd(rep, &sfd));
	MUST(nng_socket_get_recv_poll_fd(rep, &rfd));
	int      rounds = (int) W(3, 14);
	uint32_t id     = 0x80000000u | (uint32_t) W(1, 0xffff);
	int      eagain = 0, sent = 0;
	for (int r = 0; r < rounds; r++) {
		// the peer pipelines another request (and reads no reply)
		nng_msg *q = tag_msg((size_t) W(24, 2000), 1, 0, (uint32_t) r);
		MUST(nng_msg_header_append_u32(q, id + (uint32_t) r));
		if (nng_sendmsg(req, q, NNG_FLAG_NONBLOCK) != 0) {
			nng_msg_free(q);
			sim_probe("c15_pl_peer_send_blocked");
		}
		sim_quiesce(3000000);
		// REP takes it if it is there
		nng_msg *m  = NULL;
		uint64_t st0 = sim_stall_total_ns();
		int      rd = simnet_poll_in(rfd);
		int      rv = nng_recvmsg(rep, &m, NNG_FLAG_NONBLOCK);
		if (sim_stall_total_ns() != st0) {
			// stalled inside the call for longer than the quiescence horizon, perhaps: things that were due later
			// did happen between the poll and the call's effect - the premise "quiescent" is gone, nothing is judged
			sim_probe("c15_stalled_inside_call");
			rd = -1;
		}
		sim_event("round %d: recv fd=%d -> %d", r, rd, rv);
		if (rd == 1 && rv == NNG_EAGAIN)
			VIOL("fd_readable_but_eagain", "REP receive descriptor readable, non-blocking receive returned NNG_EAGAIN");
		if (rd == 0 && rv == 0)
			VIOL("success_but_fd_not_readable", "REP receive descriptor idle, yet a non-blocking receive succeeded");
		if (rv != 0)
			continue;
		nng_msg_free(m);
		sim_quiesce(3000000);
		// reply: the descriptor and the non-blocking send must agree
		uint64_t st1 = sim_stall_total_ns();
		int      wr = simnet_poll_in(sfd);
		nng_msg *a  = tag_msg((size_t) W(24, 6000), 2, 0, (uint32_t) r);
		int      sv = nng_sendmsg(rep, a, NNG_FLAG_NONBLOCK);
		if (sim_stall_total_ns() != st1) {
			sim_probe("c15_stalled_inside_call");
			wr = -1;
		}
		sim_event("round %d: send fd=%d -> %d", r, wr, sv);
		if (sv != 0)
			nng_msg_free(a);
		if (wr == 1 && sv == NNG_EAGAIN)
			VIOL("fd_readable_but_eagain",
			    "REP holds a request and its send descriptor polls readable, but the non-blocking send returned "
			    "NNG_EAGAIN (round %d, %d replies accepted so far, peer not reading)",
			    r, sent);
		if (wr == 0 && sv == 0)
			VIOL("success_but_fd_not_readable", "REP send descriptor idle, yet the non-blocking send succeeded");
		if (sv == NNG_EAGAIN) {
			eagain++;
			sim_probe("c15_pl_reply_would_block");
			// drop the stuck state: a blocking send with a short timeout gives up, which ends this request
			nng_msg *b = tag_msg(24, 2, 0, (uint32_t) r);
			MUST(nng_socket_set_ms(rep, NNG_OPT_SENDTIMEO, 5));
			if (nng_sendmsg(rep, b, 0) != 0)
				nng_msg_free(b);
		} else if (sv == 0) {
			sent++;
		} else if (sv != NNG_ESTATE) {
			VIOL("nonblock_error", "non-blocking send returned %d", sv);
		}
		sim_quiesce(3000000);
	}
	if (sent > 0)
		sim_stat("nontrivial", 1);
	MUST(nng_socket_close(rep));
	MUST(nng_socket_close(req));
}

static void
pl_cfg(sim_config *cfg, Params *p)
{
	(void) p;
	cfg->sndbuf_min = 256;
	cfg->sndbuf_max = 2048;
}
SCENARIO(c15_pipelined, "C15", pl_cfg, pl_run);

} // namespace
