// C10: close always terminates, completes everything, invalidates handles.
#include "../harness/util.h"

#include <arpa/inet.h>
#include <netinet/in.h>
#include <sys/socket.h>

// every close-like call is guarded: it must return within 10 s of virtual time
#define CLOSE_BOUND_NS 10000000000ull
#define BOUNDED_CALL(var, call)                                                    \
	do {                                                                       \
		Bounded bounded_guard_("C10", "close_hang", CLOSE_BOUND_NS, "%s", #call); \
		var = (call);                                                      \
	} while (0)

namespace {

struct ProtoPair {
	const char *name;
	int (*open_a)(nng_socket *);
	int (*open_b)(nng_socket *);
	bool a_send, a_recv; // what A may do (blocking)
	bool a_ctx;
};

static const ProtoPair PP[] = {
	{ "pair0", nng_pair0_open, nng_pair0_open, true, true, false },
	{ "pair1", nng_pair1_open, nng_pair1_open, true, true, false },
	{ "req", nng_req0_open, nng_rep0_open, true, true, true },
	{ "rep", nng_rep0_open, nng_req0_open, true, true, true },
	{ "pub", nng_pub0_open, nng_sub0_open, true, false, false },
	{ "sub", nng_sub0_open, nng_pub0_open, false, true, true },
	{ "push", nng_push0_open, nng_pull0_open, true, false, false },
	{ "pull", nng_pull0_open, nng_push0_open, false, true, false },
	{ "surveyor", nng_surveyor0_open, nng_respondent0_open, true, true, true },
	{ "respondent", nng_respondent0_open, nng_surveyor0_open, true, true, true },
	{ "bus", nng_bus0_open, nng_bus0_open, true, true, false },
	{ "pair0raw", nng_pair0_open_raw, nng_pair0_open, true, true, false },
	{ "reqraw", nng_req0_open_raw, nng_rep0_open, true, true, false },
	{ "repraw", nng_rep0_open_raw, nng_req0_open, true, true, false },
	{ "busraw", nng_bus0_open_raw, nng_bus0_open, true, true, false },
	{ "surveyorraw", nng_surveyor0_open_raw, nng_respondent0_open, true, true, false },
};
#define NPP ((long) (sizeof(PP) / sizeof(PP[0])))

struct World;
struct OpTask {
	World       *w;
	int          idx;
	int          kind; // 0 sock recv, 1 sock send, 2 ctx recv, 3 ctx send, 4 aio sock recv, 5 aio sock send
	nng_ctx      ctx;
	bool         has_ctx;
	volatile int done;
	int          last_rv;
	int          completed_ops;
	uint64_t     t_done;
	std::vector<nng_listener> ls; // kind 10: listeners to close one by one
	std::vector<nng_dialer>   ds; // kind 10: dialers to close one by one
};

struct World {
	const ProtoPair *pp;
	nng_socket       a, b;
	nng_dialer       d;
	nng_listener     l;
	bool             have_d, have_l;
	std::vector<OpTask *> ops;
	volatile int     closed_sock; // set once nng_socket_close(a) has RETURNED
	volatile int     closing;
	volatile int     closing_sock; // the final nng_socket_close is about to be called
	std::vector<uint32_t> pipes; // pipe ids of A seen in ADD_POST
	volatile int     peer_stop;
	uint64_t         cb_delay_ns; // a slow ADD_POST callback (keeps the listener from accepting meanwhile)
};

static void
pipe_cb(nng_pipe p, nng_pipe_ev ev, void *arg)
{
	World *w = (World *) arg;
	if (ev == NNG_PIPE_EV_ADD_POST) {
		w->pipes.push_back((uint32_t) nng_pipe_id(p));
		if (w->cb_delay_ns)
			sim_sleep_ns(w->cb_delay_ns);
	}
}

static bool
terminal(int rv)
{
	// any error is terminal for the operation; success is also a completion.
	(void) rv;
	return true;
}

static void
op_task(void *a)
{
	OpTask *o = (OpTask *) a;
	World  *w = o->w;
	for (int it = 0; it < 200; it++) {
		int  rv = 0;
		bool issued_after_close = w->closed_sock != 0;
		switch (o->kind) {
		case 0: {
			nng_msg *m = NULL;
			rv = nng_recvmsg(w->a, &m, 0);
			if (rv == 0)
				nng_msg_free(m);
			break;
		}
		case 1: {
			nng_msg *m = tag_msg(40, 1, (uint16_t) o->idx, (uint32_t) it);
			rv = nng_sendmsg(w->a, m, 0);
			if (rv != 0)
				nng_msg_free(m);
			break;
		}
		case 2: {
			nng_msg *m = NULL;
			rv = nng_ctx_recvmsg(o->ctx, &m, 0);
			if (rv == 0)
				nng_msg_free(m);
			break;
		}
		case 3: {
			nng_msg *m = tag_msg(40, 1, (uint16_t) o->idx, (uint32_t) it);
			rv = nng_ctx_sendmsg(o->ctx, m, 0);
			if (rv != 0)
				nng_msg_free(m);
			break;
		}
		case 4:
		case 5: {
			UAio u;
			nng_aio_set_timeout(u.aio, NNG_DURATION_INFINITE);
			nng_msg *m = NULL;
			if (o->kind == 5) {
				m = tag_msg(40, 1, (uint16_t) o->idx, (uint32_t) it);
				nng_aio_set_msg(u.aio, m);
			}
			u.arm(o->kind == 4 ? "aio_recv" : "aio_send");
			if (o->kind == 4)
				nng_socket_recv(w->a, u.aio);
			else
				nng_socket_send(w->a, u.aio);
			if (u.wait(120ull * 1000000000ull) == (nng_err) -1)
				VIOL("op_pending_forever", "%s on %s socket did not complete within 120 s (closing=%d closed=%d)",
				    u.what, w->pp->name, (int) w->closing, (int) w->closed_sock);
			rv = u.result;
			if (rv == 0 && o->kind == 4)
				nng_msg_free(nng_aio_get_msg(u.aio));
			if (rv != 0 && o->kind == 5)
				nng_msg_free(m);
			break;
		}
		case 8: {
			// contexts opened (and closed) while the socket may be closing
			nng_ctx cx;
			rv = nng_ctx_open(&cx, w->a);
			if (rv == 0) {
				if (W(0, 1))
					sim_yield();
				int crv;
				BOUNDED_CALL(crv, nng_ctx_close(cx));
				(void) crv;
				if (issued_after_close)
					VIOL("closed_handle_usable", "nng_ctx_open succeeded after nng_socket_close returned");
				rv = NNG_ETIMEDOUT; // not a message operation: keep looping
				sim_sleep_ns((uint64_t) W(0, 300) * 1000);
			}
			break;
		}
		case 9: {
			// endpoints created on the socket while it may be closing: each either
			// fails with NNG_ECLOSED or belongs to the socket, whose close takes it along
			char u[64];
			snprintf(u, sizeof(u), "inproc://c10-churn-%d-%d", o->idx, it);
			bool own_close = W(0, 1) != 0;
			if (W(0, 1)) {
				nng_dialer dd;
				rv = nng_dialer_create(&dd, w->a, u);
				if (rv == 0) {
					(void) nng_dialer_start(dd, NNG_FLAG_NONBLOCK);
					if (own_close) {
						int crv;
						BOUNDED_CALL(crv, nng_dialer_close(dd));
						(void) crv;
					}
				}
			} else {
				nng_listener ll;
				rv = nng_listener_create(&ll, w->a, u);
				if (rv == 0) {
					(void) nng_listener_start(ll, 0);
					if (own_close) {
						int crv;
						BOUNDED_CALL(crv, nng_listener_close(ll));
						(void) crv;
					}
				}
			}
			if (rv == 0) {
				if (issued_after_close)
					VIOL("closed_handle_usable", "an endpoint was created on the socket after nng_socket_close returned");
				rv = NNG_ETIMEDOUT; // not a message operation: keep looping
				if (it == 0 && W(0, 1))
					(void) sim_wait_flag(&w->closing_sock, 20000000ull); // concentrate on the close itself
				sim_sleep_ns((uint64_t) W(0, 60) * 1000);
			}
			break;
		}
		case 10: {
			// endpoints of the socket closed one by one while the socket may be closing
			if (it == 0) {
				// start when the socket close is about to start (or a little earlier / later)
				if (W(0, 3) != 0)
					(void) sim_wait_flag(&w->closing_sock, 20000000ull);
				else
					sim_sleep_ns((uint64_t) W(0, 5000) * 1000);
				sim_sleep_ns((uint64_t) W(0, 120) * 1000);
			}
			size_t n = o->ls.size() + o->ds.size();
			if ((size_t) it >= n) {
				rv = NNG_ENOENT;
				break;
			}
			int crv;
			if ((size_t) it < o->ls.size())
				BOUNDED_CALL(crv, nng_listener_close(o->ls[(size_t) it]));
			else
				BOUNDED_CALL(crv, nng_dialer_close(o->ds[(size_t) it - o->ls.size()]));
			if (crv != 0 && crv != NNG_ECLOSED && crv != NNG_ENOENT)
				VIOL("close_failed", "closing an endpoint returned %d", crv);
			rv = NNG_ETIMEDOUT;
			if (W(0, 2) == 0)
				sim_sleep_ns((uint64_t) W(0, 100) * 1000);
			break;
		}
		case 6: {
			// blocking dial to an address that never answers
			Bounded g("C10", "op_pending_forever", 120ull * 1000000000ull, "nng_dial to a black-holed address (closing=%d)",
			    (int) w->closing);
			rv = nng_dial(w->a, h_url(TR_TCP, 73).c_str(), NULL, 0);
			if (rv == 0)
				VIOL("dial_succeeded_to_black_hole", "nng_dial to a black-holed address returned success");
			break;
		}
		case 7: {
			// asynchronous dialer start to an address that never answers
			nng_dialer dd;
			rv = nng_dialer_create(&dd, w->a, h_url(TR_TCP, 73).c_str());
			if (rv != 0)
				break;
			UAio u;
			nng_aio_set_timeout(u.aio, NNG_DURATION_INFINITE);
			u.arm("dialer_start_aio");
			nng_dialer_start_aio(dd, 0, u.aio);
			if (u.wait(120ull * 1000000000ull) == (nng_err) -1)
				VIOL("op_pending_forever",
				    "nng_dialer_start_aio to a black-holed address did not complete within 120 s (closing=%d closed=%d)",
				    (int) w->closing, (int) w->closed_sock);
			rv = u.result;
			if (rv == 0)
				VIOL("dial_succeeded_to_black_hole", "nng_dialer_start_aio to a black-holed address completed with success");
			if (rv != NNG_ECLOSED)
				nng_dialer_close(dd);
			break;
		}
		}
		o->last_rv = rv;
		o->completed_ops++;
		if (rv == NNG_ECLOSED || rv == NNG_ENOENT)
			break;
		if (rv == NNG_ESTATE || rv == NNG_ENOTSUP) {
			// state machine says no; try again a little later (the peer may
			// advance the state), but do not spin
			sim_sleep_ms(1);
		}
		if (issued_after_close && rv == 0) {
			// an operation on the socket handle SUCCEEDED after close returned
			VIOL("op_succeeded_after_close", "operation kind %d on the %s socket succeeded after nng_socket_close returned",
			    o->kind, w->pp->name);
		}
		(void) terminal(rv);
	}
	o->t_done = sim_now_ns();
	o->done   = 1;
}

// peer B keeps the conversation alive so that A's operations sometimes complete
static void
peer_task(void *a)
{
	World *w = (World *) a;
	int    n = 0;
	while (!w->peer_stop) {
		nng_msg *m = NULL;
		int      rv = nng_recvmsg(w->b, &m, NNG_FLAG_NONBLOCK);
		if (rv == 0) {
			// echo (works for rep/respondent/pair/bus), ignore failures
			if (nng_sendmsg(w->b, m, NNG_FLAG_NONBLOCK) != 0)
				nng_msg_free(m);
		} else if ((n++ % 3) == 0) {
			nng_msg *s = tag_msg(24, 2, 0, (uint32_t) n);
			if (nng_sendmsg(w->b, s, NNG_FLAG_NONBLOCK) != 0)
				nng_msg_free(s);
		}
		sim_sleep_ns((uint64_t) W(200, 3000) * 1000);
	}
}

// silent raw peer: connects to A's listener and says nothing (pipe stays negotiating)
struct Silent {
	int      port;
	int      fd;
};
static void
silent_peer(void *a)
{
	Silent *s = (Silent *) a;
	s->fd     = simnet_socket(AF_INET, SOCK_STREAM);
	struct sockaddr_in sin;
	memset(&sin, 0, sizeof(sin));
	sin.sin_family      = AF_INET;
	sin.sin_port        = htons((uint16_t) s->port);
	sin.sin_addr.s_addr = htonl(0x7f000001u);
	if (simnet_connect_blocking(s->fd, &sin, sizeof(sin), 2000000000ull) != 0)
		return;
	sim_probe("c10_silent_peer_connected");
	char buf[16];
	simnet_read_blocking(s->fd, buf, sizeof(buf), 0); // blocks until the other side gives up
}

static int
expect_invalid(int rv, const char *what, const char *obj)
{
	if (rv == 0)
		VIOL("closed_handle_usable", "%s on a closed %s succeeded", what, obj);
	if (rv != NNG_ECLOSED && rv != NNG_ENOENT)
		VIOL("closed_handle_wrong_error", "%s on a closed %s returned %d (%s), expected NNG_ECLOSED or NNG_ENOENT", what,
		    obj, rv, nng_strerror((nng_err) rv));
	return rv;
}

static void
close_run(Params *p)
{
	World w;
	w.pp = &PP[W(0, NPP - 1)];
	int tr = (int) p->draw("tr", 0, 3);
	w.closed_sock = 0;
	w.closing     = 0;
	w.closing_sock = 0;
	w.peer_stop   = 0;
	w.have_d = w.have_l = false;
	w.cb_delay_ns = 0;
	MUST(w.pp->open_a(&w.a));
	MUST(w.pp->open_b(&w.b));
	MUST(nng_pipe_notify(w.a, NNG_PIPE_EV_ADD_POST, pipe_cb, &w));
	if (w.pp->open_b == nng_sub0_open)
		MUST(nng_sub0_socket_subscribe(w.b, "", 0));
	if (w.pp->open_a == nng_sub0_open)
		MUST(nng_sub0_socket_subscribe(w.a, "", 0));
	std::string url     = h_url(tr, 70);
	bool        a_listens = W(0, 1) == 0;
	if (a_listens) {
		MUST(nng_listener_create(&w.l, w.a, url.c_str()));
		MUST(nng_listener_start(w.l, 0));
		w.have_l = true;
		MUST(nng_dial(w.b, url.c_str(), NULL, NNG_FLAG_NONBLOCK));
	} else {
		MUST(nng_listen(w.b, url.c_str(), NULL, 0));
		MUST(nng_dialer_create(&w.d, w.a, url.c_str()));
		MUST(nng_dialer_set_ms(w.d, NNG_OPT_RECONNMINT, 10));
		MUST(nng_dialer_set_ms(w.d, NNG_OPT_RECONNMAXT, 40));
		MUST(nng_dialer_start(w.d, NNG_FLAG_NONBLOCK));
		w.have_d = true;
	}
	// optional extras: a dialer to a black hole, a second listener with a silent peer
	nng_dialer   hole;
	bool         have_hole = false;
	nng_listener l2;
	bool         have_l2 = false;
	Silent       sil     = { 5000 + 72, -1 };
	if (W(0, 2) == 0) {
		simnet_blackhole(0x7f000001u, (uint16_t) (5000 + 71), 1);
		if (nng_dialer_create(&hole, w.a, h_url(TR_TCP, 71).c_str()) == 0) {
			nng_dialer_start(hole, NNG_FLAG_NONBLOCK);
			have_hole = true;
			sim_probe("c10_blackhole_dial");
		}
	}
	if (W(0, 2) == 0) {
		if (nng_listener_create(&l2, w.a, h_url(TR_TCP, 72).c_str()) == 0 && nng_listener_start(l2, 0) == 0) {
			have_l2 = true;
			sim_spawn("silent", silent_peer, &sil, SIM_TASK_DAEMON);
		}
	}
	sim_quiesce(5000000);
	sim_event("c10_close proto=%s tr=%s a_listens=%d hole=%d silent=%d", w.pp->name, h_tr_name(tr), (int) a_listens,
	    (int) have_hole, (int) have_l2);

	// pending operations
	bool have_hole2 = false;
	int  nops       = (int) W(1, 4);
	for (int i = 0; i < nops; i++) {
		OpTask *o = new OpTask();
		o->w      = &w;
		o->idx    = i;
		o->done   = 0;
		o->has_ctx = false;
		o->completed_ops = 0;
		o->last_rv = -1;
		bool want_send = w.pp->a_send && (!w.pp->a_recv || W(0, 1) == 0);
		bool use_ctx   = w.pp->a_ctx && W(0, 1) == 0;
		bool use_aio   = !use_ctx && W(0, 2) == 0;
		long esel = W(0, 11);
		if (esel == 0) {
			o->kind = 9;
			sim_probe("c10_endpoint_churn");
		} else if (esel == 1) {
			o->kind = 10;
			int ne = 2 + (int) W(0, 2);
			for (int k = 0; k < ne; k++) {
				char u[64];
				snprintf(u, sizeof(u), "inproc://c10-ep-%d-%d", i, k);
				if (W(0, 2) != 0) {
					nng_listener ll;
					if (nng_listener_create(&ll, w.a, u) == 0 && nng_listener_start(ll, 0) == 0)
						o->ls.push_back(ll);
				} else {
					nng_dialer dd;
					if (nng_dialer_create(&dd, w.a, u) == 0) {
						(void) nng_dialer_start(dd, NNG_FLAG_NONBLOCK);
						o->ds.push_back(dd);
					}
				}
			}
			sim_probe("c10_endpoints_closed_one_by_one");
		} else if (w.pp->a_ctx && W(0, 9) == 0) {
			o->kind = 8;
			sim_probe("c10_ctx_open_loop");
		} else if (W(0, 7) == 0) {
			// a pending dial instead of a message operation
			o->kind = W(0, 1) ? 6 : 7;
			if (!have_hole2) {
				simnet_blackhole(0x7f000001u, (uint16_t) (5000 + 73), 1);
				have_hole2 = true;
			}
			sim_probe("c10_pending_dial");
		} else if (use_ctx) {
			if (nng_ctx_open(&o->ctx, w.a) != 0) {
				delete o;
				continue;
			}
			o->has_ctx = true;
			o->kind    = want_send ? 3 : 2;
		} else {
			o->kind = use_aio ? (want_send ? 5 : 4) : (want_send ? 1 : 0);
		}
		w.ops.push_back(o);
	}
	int peer = sim_spawn("peer", peer_task, &w, 0);
	for (auto o : w.ops)
		sim_spawn("op", op_task, o, 0);
	sim_sleep_ns((uint64_t) W(0, 4000) * 1000);

	// optionally more peers arrive just now, through a slow connection callback:
	// their connections finish negotiating while the listener cannot accept them
	std::vector<nng_socket> extra;
	if (a_listens && W(0, 3) == 0) {
		w.cb_delay_ns = (uint64_t) W(1, 30) * 1000000ull;
		int ne = 1 + (int) W(0, 2);
		for (int i = 0; i < ne; i++) {
			nng_socket x;
			if (w.pp->open_b(&x) != 0)
				break;
			nng_socket_set_ms(x, NNG_OPT_RECONNMINT, 100);
			nng_socket_set_ms(x, NNG_OPT_RECONNMAXT, 100);
			(void) nng_dial(x, url.c_str(), NULL, NNG_FLAG_NONBLOCK);
			extra.push_back(x);
		}
		sim_probe("c10_extra_peers_arriving");
		if (W(0, 1))
			sim_sleep_ns((uint64_t) W(0, 4000) * 1000);
	}

	// what to close
	// now and then the application looks at its pipes first: every getter, with option names the pipe has and
	// names it has not (a failed look-up must leave nothing behind that a close would then wait for)
	if (!w.pipes.empty() && W(0, 2) == 0) {
		static const char *const NAMES[] = { NNG_OPT_LOCADDR, "remote-address", NNG_OPT_RECVMAXSZ, "no-such-option",
			NNG_OPT_WS_REQUEST_URI, NNG_OPT_TCP_NODELAY, NNG_OPT_PEER_UID };
		int looks = 1 + (int) W(0, 5);
		for (int i = 0; i < looks; i++) {
			nng_pipe pp;
			pp.id            = w.pipes[(size_t) W(0, (long) w.pipes.size() - 1)];
			const char *name = NAMES[W(0, 6)];
			char        buf[64];
			char       *dup = NULL;
			const char *str = NULL;
			size_t      sz  = 0;
			int         iv  = 0;
			bool        bv  = false;
			nng_duration ms = 0;
			int         rv  = 0;
			switch (W(0, 7)) {
			case 0: rv = nng_pipe_get_strcpy(pp, name, buf, sizeof(buf)); break;
			case 1:
				rv = nng_pipe_get_strdup(pp, name, &dup);
				if (rv == 0)
					nng_strfree(dup);
				break;
			case 2: rv = nng_pipe_get_strlen(pp, name, &sz); break;
			case 3: rv = nng_pipe_get_string(pp, name, &str); break;
			case 4: rv = nng_pipe_get_int(pp, name, &iv); break;
			case 5: rv = nng_pipe_get_bool(pp, name, &bv); break;
			case 6: rv = nng_pipe_get_size(pp, name, &sz); break;
			default: rv = nng_pipe_get_ms(pp, name, &ms); break;
			}
			sim_event("pipe %x option %s -> %d", pp.id, name, rv);
			sim_probe(rv == 0 ? "c10_pipe_option_ok" : "c10_pipe_option_failed");
		}
	}
	long target = W(0, 5); // 0,1 socket; 2 ctx; 3 endpoint; 4 pipe; 5 socket twice concurrently
	uint64_t t0 = sim_now_ns(), s0 = sim_stall_total_ns();
	w.closing   = 1;
	if (target == 2) {
		OpTask *vict = NULL;
		for (auto o : w.ops)
			if (o->has_ctx)
				vict = o;
		if (vict != NULL) {
			sim_event("close ctx of op %d", vict->idx);
			int rv;
			BOUNDED_CALL(rv, nng_ctx_close(vict->ctx));
			if (rv != 0)
				VIOL("close_failed", "nng_ctx_close returned %d", rv);
			// the op on that ctx must complete
			if (sim_wait_flag(&vict->done, 30000000000ull) != 0)
				VIOL("op_pending_after_close", "operation on a closed context is still pending 30 s after nng_ctx_close returned");
			nng_msg *m = NULL;
			expect_invalid(nng_ctx_recvmsg(vict->ctx, &m, NNG_FLAG_NONBLOCK), "nng_ctx_recvmsg", "context");
			expect_invalid(nng_ctx_close(vict->ctx), "nng_ctx_close", "context");
			int v;
			expect_invalid(nng_ctx_get_int(vict->ctx, NNG_OPT_RECVBUF, &v), "nng_ctx_get_int", "context");
			vict->has_ctx = false;
			sim_stat("nontrivial", 1);
		}
	} else if (target == 3) {
		if (w.have_l) {
			sim_event("close listener");
			int rv;
			BOUNDED_CALL(rv, nng_listener_close(w.l));
			if (rv != 0)
				VIOL("close_failed", "nng_listener_close returned %d", rv);
			expect_invalid(nng_listener_close(w.l), "nng_listener_close", "listener");
			int v;
			expect_invalid(nng_listener_get_int(w.l, NNG_OPT_RECVMAXSZ, &v), "nng_listener_get_int", "listener");
			w.have_l = false;
		} else if (w.have_d) {
			sim_event("close dialer");
			int rv;
			BOUNDED_CALL(rv, nng_dialer_close(w.d));
			if (rv != 0)
				VIOL("close_failed", "nng_dialer_close returned %d", rv);
			expect_invalid(nng_dialer_close(w.d), "nng_dialer_close", "dialer");
			int v;
			expect_invalid(nng_dialer_get_int(w.d, NNG_OPT_RECVMAXSZ, &v), "nng_dialer_get_int", "dialer");
			w.have_d = false;
		}
		sim_stat("nontrivial", 1);
	} else if (target == 4) {
		if (!w.pipes.empty()) {
			nng_pipe pp;
			pp.id = w.pipes.back();
			sim_event("close pipe %x", pp.id);
			int prv0;
			BOUNDED_CALL(prv0, nng_pipe_close(pp));
			(void) prv0;
			sim_stat("nontrivial", 1);
		}
	}
	if (W(0, 3) == 0)
		sim_sleep_ns((uint64_t) W(0, 3000) * 1000);

	// finally the socket itself (possibly from two tasks at once)
	struct Closer {
		World       *w;
		volatile int rv;
		volatile int done;
	};
	Closer c2 = { &w, -1, 0 };
	auto   closer = [](void *a) {
        Closer *c = (Closer *) a;
        int rv2;
        BOUNDED_CALL(rv2, nng_socket_close(c->w->a));
        c->rv = rv2;
        c->done   = 1;
	};
	int ct = -1;
	if (target == 5)
		ct = sim_spawn("closer2", closer, &c2, 0);
	sim_event("close socket A");
	int rv;
	w.closing_sock = 1;
	BOUNDED_CALL(rv, nng_socket_close(w.a));
	w.closed_sock = 1;
	uint64_t dt = sim_now_ns() - t0 - (sim_stall_total_ns() - s0);
	if (rv != 0 && !(target == 5 && rv == NNG_ECLOSED))
		VIOL("close_failed", "nng_socket_close returned %d", rv);
	if (dt > 30000000000ull)
		VIOL("close_too_slow", "closing took %llu ms of virtual time", (unsigned long long) (dt / 1000000));
	if (ct >= 0) {
		if (sim_wait_flag(&c2.done, 60000000000ull) != 0)
			VIOL("close_hang", "a concurrent second nng_socket_close never returned");
		if (c2.rv != 0 && c2.rv != NNG_ECLOSED)
			VIOL("close_failed", "concurrent nng_socket_close returned %d", (int) c2.rv);
		if (c2.rv == 0 && rv == 0)
			sim_probe("c10_both_closes_ok");
	}
	// everything pending on A completes
	for (auto o : w.ops) {
		if (sim_wait_flag(&o->done, 30000000000ull) != 0)
			VIOL("op_pending_after_close",
			    "operation kind %d on the %s socket is still pending 30 s after nng_socket_close returned (last rv %d)",
			    o->kind, w.pp->name, o->last_rv);
	}
	sim_stat("nontrivial", 1);
	// handle validity
	{
		nng_msg *m = NULL;
		int      v;
		expect_invalid(nng_recvmsg(w.a, &m, NNG_FLAG_NONBLOCK), "nng_recvmsg", "socket");
		nng_msg *s = tag_msg(20, 1, 0, 0);
		int      srv = nng_sendmsg(w.a, s, NNG_FLAG_NONBLOCK);
		if (srv != 0)
			nng_msg_free(s);
		expect_invalid(srv, "nng_sendmsg", "socket");
		expect_invalid(nng_socket_get_int(w.a, NNG_OPT_RECVBUF, &v), "nng_socket_get_int", "socket");
		expect_invalid(nng_socket_set_ms(w.a, NNG_OPT_RECVTIMEO, 5), "nng_socket_set_ms", "socket");
		nng_ctx cx;
		int     crv = nng_ctx_open(&cx, w.a);
		if (crv == 0)
			nng_ctx_close(cx);
		if (crv == 0)
			VIOL("closed_handle_usable", "nng_ctx_open on a closed socket succeeded");
		nng_dialer dd;
		int        drv = nng_dial(w.a, url.c_str(), &dd, NNG_FLAG_NONBLOCK);
		expect_invalid(drv, "nng_dial", "socket");
		expect_invalid(nng_socket_close(w.a), "nng_socket_close", "socket");
		// derived handles
		for (auto o : w.ops) {
			if (o->has_ctx) {
				nng_msg *mm = NULL;
				expect_invalid(nng_ctx_recvmsg(o->ctx, &mm, NNG_FLAG_NONBLOCK), "nng_ctx_recvmsg", "context of a closed socket");
				expect_invalid(nng_ctx_close(o->ctx), "nng_ctx_close", "context of a closed socket");
			}
		}
		if (w.have_d)
			expect_invalid(nng_dialer_close(w.d), "nng_dialer_close", "dialer of a closed socket");
		if (w.have_l)
			expect_invalid(nng_listener_close(w.l), "nng_listener_close", "listener of a closed socket");
		if (have_hole)
			expect_invalid(nng_dialer_close(hole), "nng_dialer_close", "dialer of a closed socket");
		if (have_l2)
			expect_invalid(nng_listener_close(l2), "nng_listener_close", "listener of a closed socket");
		for (uint32_t id : w.pipes) {
			nng_pipe pp;
			pp.id = id;
			int prv = nng_pipe_close(pp);
			if (prv == 0)
				VIOL("closed_handle_usable", "nng_pipe_close on a pipe of a closed socket succeeded");
		}
	}
	w.peer_stop = 1;
	sim_join(peer);
	sim_join_all();
	for (auto x : extra) {
		int rvx;
		BOUNDED_CALL(rvx, nng_socket_close(x));
		(void) rvx;
	}
	if (have_hole)
		simnet_blackhole(0x7f000001u, (uint16_t) (5000 + 71), 0);
	if (have_hole2)
		simnet_blackhole(0x7f000001u, (uint16_t) (5000 + 73), 0);
	{
		int rvb;
		BOUNDED_CALL(rvb, nng_socket_close(w.b));
		MUST(rvb);
	}
	for (auto o : w.ops)
		delete o;
}

static void
close_cfg(sim_config *cfg, Params *p)
{
	long net = p->draw("net", 0, 2);
	if (net == 1) {
		cfg->seg_mode = 3;
	} else if (net == 2) {
		cfg->lat_min_ns = 100000;
		cfg->lat_max_ns = 5000000;
		cfg->conn_delay_max_ns = 3000000;
	}
}
SCENARIO(c10_close, "C10", close_cfg, close_run);

// ---------------------------------------------------------------------------
// device: closing one side's socket must end the device
static void
device_run(Params *p)
{
	(void) p;
	nng_socket s1, s2, c1, c2;
	long       kind = W(0, 2);
	if (kind == 0) {
		MUST(nng_pair0_open_raw(&s1));
		MUST(nng_pair0_open_raw(&s2));
		MUST(nng_pair0_open(&c1));
		MUST(nng_pair0_open(&c2));
	} else if (kind == 1) {
		MUST(nng_rep0_open_raw(&s1));
		MUST(nng_req0_open_raw(&s2));
		MUST(nng_req0_open(&c1));
		MUST(nng_rep0_open(&c2));
	} else {
		MUST(nng_bus0_open_raw(&s1));
		MUST(nng_bus0_open_raw(&s2));
		MUST(nng_bus0_open(&c1));
		MUST(nng_bus0_open(&c2));
	}
	MUST(nng_listen(s1, "inproc://c10dev1", NULL, 0));
	MUST(nng_listen(s2, "inproc://c10dev2", NULL, 0));
	MUST(nng_dial(c1, "inproc://c10dev1", NULL, 0));
	MUST(nng_dial(c2, "inproc://c10dev2", NULL, 0));
	UAio dev;
	nng_aio_set_timeout(dev.aio, NNG_DURATION_INFINITE);
	dev.arm("device");
	nng_device_aio(dev.aio, s1, s2);
	sim_quiesce(2000000);
	// some traffic
	MUST(nng_socket_set_ms(c1, NNG_OPT_SENDTIMEO, 200));
	MUST(nng_socket_set_ms(c2, NNG_OPT_RECVTIMEO, 200));
	for (int i = 0; i < (int) W(0, 4); i++) {
		nng_msg *m = tag_msg(30, 1, 0, (uint32_t) i);
		if (nng_sendmsg(c1, m, 0) != 0)
			nng_msg_free(m);
		nng_msg *r = NULL;
		if (nng_recvmsg(c2, &r, 0) == 0) {
			if (kind == 1) {
				if (nng_sendmsg(c2, r, 0) != 0)
					nng_msg_free(r);
				nng_msg *rr = NULL;
				nng_socket_set_ms(c1, NNG_OPT_RECVTIMEO, 200);
				if (nng_recvmsg(c1, &rr, 0) == 0)
					nng_msg_free(rr);
			} else {
				nng_msg_free(r);
			}
		}
	}
	long how = W(0, 2);
	sim_event("device kind=%ld end-by=%ld", kind, how);
	uint64_t t0 = sim_now_ns(), st0 = sim_stall_total_ns();
	if (how != 2) {
		// a socket that is part of a running device refuses to be closed
		int crv;
		BOUNDED_CALL(crv, nng_socket_close(how == 0 ? s1 : s2));
		if (crv == 0) {
			sim_probe("c10_device_socket_closed");
		} else {
			if (crv != NNG_EBUSY)
				VIOL("close_failed", "nng_socket_close on a device socket returned %d", crv);
			nng_aio_cancel(dev.aio);
		}
	} else {
		nng_aio_cancel(dev.aio);
	}
	if (dev.wait(30000000000ull) == (nng_err) -1)
		VIOL("device_pending_after_close", "nng_device_aio did not complete within 30 s after %s",
		    how == 2 ? "nng_aio_cancel" : "one of its sockets was closed");
	if (dev.result == 0)
		VIOL("device_completed_ok", "nng_device_aio completed with success");
	uint64_t dt = sim_now_ns() - t0 - (sim_stall_total_ns() - st0);
	(void) dt;
	sim_stat("nontrivial", 1);
	// the device closes its sockets when it ends; closing again must say so
	int r1, r2;
	BOUNDED_CALL(r1, nng_socket_close(s1));
	BOUNDED_CALL(r2, nng_socket_close(s2));
	if ((r1 != 0 && r1 != NNG_ECLOSED) || (r2 != 0 && r2 != NNG_ECLOSED))
		VIOL("close_failed", "closing the device sockets returned %d / %d", r1, r2);
	MUST(nng_socket_close(c1));
	MUST(nng_socket_close(c2));
}
SCENARIO(c10_device, "C10", NULL, device_run);

} // namespace
