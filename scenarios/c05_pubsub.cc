// C05 PUB/SUB: delivery iff a current subscription prefixes the body.
#include "../harness/util.h"

#include <deque>
#include <set>

namespace {

struct MMsg {
	std::string body;
	int         pub;
	uint32_t    serial;
	uint64_t    pub_seq; // sim step at publish call
};

struct MCtx {
	bool                     is_sock;
	nng_ctx                  ctx;
	std::map<std::string, int> topics; // topic -> subscribe count
	std::deque<int>          q;        // indices into msgs
	size_t                   cap;
	bool                     prefnew;
	UAio                    *waiter;   // pending async recv (at most one)
	bool                     waiting;
	std::set<int>            got;      // delivered msg ids (no dup)
};

struct World {
	nng_socket            sub;
	std::vector<nng_socket> pubs;
	std::vector<MCtx>     ctxs;
	std::vector<MMsg>     msgs;
};

static const char ALPHA[] = { 'a', 'b', 'c', 0x00, (char) 0xff };

static std::string
rand_bytes(int maxlen)
{
	int         n = (int) W(0, maxlen);
	std::string s;
	for (int i = 0; i < n; i++)
		s += ALPHA[W(0, 4)];
	return s;
}

static bool
matches(const MCtx &c, const std::string &body)
{
	for (auto &kv : c.topics) {
		if (kv.second <= 0)
			continue;
		const std::string &t = kv.first;
		if (t.size() <= body.size() && body.compare(0, t.size(), t) == 0)
			return true;
	}
	return false;
}

static std::string
show(const std::string &s)
{
	return h_hex((const uint8_t *) s.data(), s.size(), 16);
}

static int
find_msg(World &w, const void *p, size_t n)
{
	std::string b((const char *) p, n);
	for (size_t i = 0; i < w.msgs.size(); i++)
		if (w.msgs[i].body == b)
			return (int) i;
	return -1;
}

// non-blocking receive on a context / socket: returns msg id, -1 empty
static int
recv_nb(World &w, MCtx &c, int *err)
{
	nng_msg *m  = NULL;
	int      rv;
	if (c.is_sock) {
		rv = nng_recvmsg(w.sub, &m, NNG_FLAG_NONBLOCK);
	} else {
		UAio u;
		nng_aio_set_timeout(u.aio, NNG_DURATION_ZERO);
		u.arm("ctx_recv_nb");
		nng_ctx_recv(c.ctx, u.aio);
		if (u.wait(5000000000ull) == (nng_err) -1)
			VIOL("nonblocking_recv_blocked", "zero-timeout ctx recv did not complete");
		rv = u.result;
		if (rv == 0)
			m = nng_aio_get_msg(u.aio);
	}
	*err = rv;
	if (rv != 0)
		return -1;
	int id = find_msg(w, nng_msg_body(m), nng_msg_len(m));
	if (id < 0)
		VIOL("altered_message", "received body %s was never published",
		    h_hex((uint8_t *) nng_msg_body(m), nng_msg_len(m)).c_str());
	nng_msg_free(m);
	return id;
}

static void
model_arrival(World &w, int id)
{
	const std::string &body = w.msgs[id].body;
	for (size_t ci = 0; ci < w.ctxs.size(); ci++) {
		MCtx &c = w.ctxs[ci];
		if (!matches(c, body))
			continue;
		if (c.waiting) {
			c.waiting = false;
			c.q.push_back(-1 - id); // marker: delivered to waiter
			continue;
		}
		if (c.q.size() < c.cap) {
			c.q.push_back(id);
		} else if (c.prefnew) {
			if (!c.q.empty())
				c.q.pop_front();
			c.q.push_back(id);
			sim_probe("c05_drop_oldest");
		} else {
			sim_probe("c05_drop_new");
		}
	}
}

static void
check_waiters(World &w, int id, const char *when)
{
	for (size_t ci = 0; ci < w.ctxs.size(); ci++) {
		MCtx &c = w.ctxs[ci];
		if (!c.q.empty() && c.q.back() < 0) {
			int want = -1 - c.q.back();
			c.q.pop_back();
			if (!c.waiter->poll())
				VIOL("missed_delivery",
				    "ctx %zu had a pending receive and a matching "
				    "subscription but message %s was not delivered (%s)",
				    ci, show(w.msgs[want].body).c_str(), when);
			if (c.waiter->result != 0)
				VIOL("missed_delivery", "pending receive on ctx %zu failed %d", ci,
				    c.waiter->result);
			nng_msg *m  = nng_aio_get_msg(c.waiter->aio);
			int      gi = find_msg(w, nng_msg_body(m), nng_msg_len(m));
			nng_msg_free(m);
			if (gi != want)
				VIOL("wrong_message", "ctx %zu waiter got msg %d expected %d", ci, gi, want);
			if (!c.got.insert(gi).second)
				VIOL("duplicate_delivery", "ctx %zu got message %d twice", ci, gi);
			delete c.waiter;
			c.waiter = NULL;
			sim_stat("delivered", 1);
		} else if (c.waiting && c.waiter->poll()) {
			nng_msg *m = c.waiter->result == 0 ? nng_aio_get_msg(c.waiter->aio) : NULL;
			std::string got = m ? show(std::string((char *) nng_msg_body(m), nng_msg_len(m))) : "";
			VIOL("unexpected_delivery",
			    "ctx %zu pending receive completed (rv %d body %s) though no "
			    "subscription matches published %s",
			    ci, c.waiter->result, got.c_str(), id >= 0 ? show(w.msgs[id].body).c_str() : "-");
		}
	}
}

static void
do_recv_nb(World &w, size_t ci)
{
	MCtx &c = w.ctxs[ci];
	int   err;
	int   id = recv_nb(w, c, &err);
	if (c.q.empty()) {
		if (id >= 0)
			VIOL("unexpected_delivery",
			    "ctx %zu received %s but the model queue is empty (no current "
			    "subscription matched it on arrival, or it was purged/dropped)",
			    ci, show(w.msgs[id].body).c_str());
		if (err != NNG_EAGAIN && err != NNG_ETIMEDOUT)
			VIOL("recv_error", "non-blocking receive on empty ctx %zu returned %d", ci, err);
		return;
	}
	int want = c.q.front();
	c.q.pop_front();
	if (id < 0)
		VIOL("missed_delivery",
		    "ctx %zu: model holds %s (matching subscription on arrival) but "
		    "receive returned %d",
		    ci, show(w.msgs[want].body).c_str(), err);
	if (id != want)
		VIOL("wrong_message", "ctx %zu received msg %d (%s) expected %d (%s)", ci, id,
		    show(w.msgs[id].body).c_str(), want, show(w.msgs[want].body).c_str());
	if (!c.got.insert(id).second)
		VIOL("duplicate_delivery", "ctx %zu got message %d twice", ci, id);
	sim_stat("delivered", 1);
}

static void
seq_run(Params *p)
{
	World w;
	int   np   = (int) W(1, 2);
	int   nctx = (int) W(0, 3);
	int   tr   = (int) p->draw("tr", 0, 3);
	MUST(nng_sub0_open(&w.sub));
	size_t cap0    = (size_t) W(1, 4);
	bool   prefnew0 = W(0, 1) != 0;
	MUST(nng_socket_set_int(w.sub, NNG_OPT_RECVBUF, (int) cap0));
	MUST(nng_socket_set_bool(w.sub, NNG_OPT_SUB_PREFNEW, prefnew0));
	w.ctxs.resize((size_t) nctx + 1);
	for (size_t i = 0; i < w.ctxs.size(); i++) {
		MCtx &c   = w.ctxs[i];
		c.is_sock = i == 0;
		c.cap     = cap0;
		c.prefnew = prefnew0;
		c.waiter  = NULL;
		c.waiting = false;
		if (i > 0) {
			MUST(nng_ctx_open(&c.ctx, w.sub));
			if (W(0, 2) == 0) {
				c.cap = (size_t) W(1, 4);
				MUST(nng_ctx_set_int(c.ctx, NNG_OPT_RECVBUF, (int) c.cap));
			}
			if (W(0, 2) == 0) {
				c.prefnew = W(0, 1) != 0;
				MUST(nng_ctx_set_bool(c.ctx, NNG_OPT_SUB_PREFNEW, c.prefnew));
			}
		}
	}
	std::string url = h_url(tr, 1);
	MUST(nng_listen(w.sub, url.c_str(), NULL, 0));
	for (int i = 0; i < np; i++) {
		nng_socket ps;
		MUST(nng_pub0_open(&ps));
		MUST(nng_dial(ps, url.c_str(), NULL, 0));
		w.pubs.push_back(ps);
	}
	sim_quiesce(20000000);
	sim_event("c05_seq tr=%s pubs=%d ctxs=%d cap=%zu prefnew=%d", h_tr_name(tr), np, nctx + 1, cap0,
	    (int) prefnew0);

	int      nops   = (int) W(4, 40);
	uint32_t serial = 0;
	// bodies are fixed up front so that subscriptions can name future ones
	std::vector<std::string> future;
	for (int i = 0; i < nops; i++) {
		std::string b = rand_bytes(3);
		b += (char) (0x80 | (i >> 6));
		b += (char) (0x80 | (i & 0x3f));
		if (W(0, 7) == 0)
			b = b.substr(b.size() - 2); // short body
		future.push_back(b);
	}
	for (int op = 0; op < nops; op++) {
		int    kind = (int) W(0, 10);
		size_t ci   = (size_t) W(0, (long) w.ctxs.size() - 1);
		MCtx  &c    = w.ctxs[ci];
		if (kind == 10) { // the receive buffer is resized with whatever it holds
			size_t ncap = (size_t) W(1, 8);
			int    rv   = c.is_sock ? nng_socket_set_int(w.sub, NNG_OPT_RECVBUF, (int) ncap)
			                        : nng_ctx_set_int(c.ctx, NNG_OPT_RECVBUF, (int) ncap);
			if (rv != 0)
				VIOL("resize_failed", "setting NNG_OPT_RECVBUF to %zu returned %d", ncap, rv);
			sim_event("resize ctx%zu recvbuf %zu -> %zu (holding %zu)", ci, c.cap, ncap, c.q.size());
			// what no longer fits is discarded, newest first; nothing else changes
			while (c.q.size() > ncap) {
				c.q.pop_back();
				sim_probe("c05_dropped_by_shrink");
			}
			if (ncap > c.cap && c.q.size() == c.cap)
				sim_probe("c05_full_buffer_grown");
			c.cap = ncap;
			continue;
		}
		if (kind <= 3) { // publish
			MMsg m;
			m.pub    = (int) W(0, np - 1);
			m.serial = serial++;
			m.body   = future[m.serial];
			m.pub_seq = sim_steps();
			w.msgs.push_back(m);
			int      id  = (int) w.msgs.size() - 1;
			nng_msg *msg = NULL;
			MUST(nng_msg_alloc(&msg, 0));
			MUST(nng_msg_append(msg, m.body.data(), m.body.size()));
			sim_event("publish p%d %s", m.pub, show(m.body).c_str());
			uint64_t t0 = sim_now_ns(), s0 = sim_stall_total_ns();
			int      rv = nng_sendmsg(w.pubs[(size_t) m.pub], msg, 0);
			uint64_t dt = sim_now_ns() - t0 - (sim_stall_total_ns() - s0);
			if (rv != 0)
				VIOL("pub_send_failed", "PUB send returned %d", rv);
			if (dt > 50000000ull)
				VIOL("pub_send_blocked", "PUB send took %llu ms of virtual time",
				    (unsigned long long) (dt / 1000000));
			sim_quiesce(5000000);
			model_arrival(w, id);
			check_waiters(w, id, "after publish");
			sim_stat("nontrivial", 1);
		} else if (kind == 4 || kind == 5) { // subscribe
			std::string t = rand_bytes(3);
			long sel = W(0, 9);
			if (sel <= 3 && serial < future.size()) {
				// aim at a message still to come: its whole body, its
				// body plus one byte (longer than the body), or a prefix
				const std::string &fb = future[(size_t) W((long) serial,
				    (long) std::min(future.size() - 1, (size_t) serial + 3))];
				if (sel == 0)
					t = fb;
				else if (sel == 1)
					t = fb + (W(0, 1) ? "a" : std::string(1, '\0'));
				else
					t = fb.substr(0, (size_t) W(0, (long) fb.size()));
			}
			int rv = c.is_sock ? nng_sub0_socket_subscribe(w.sub, t.data(), t.size())
			                   : nng_sub0_ctx_subscribe(c.ctx, t.data(), t.size());
			if (rv != 0)
				VIOL("subscribe_failed", "subscribe returned %d", rv);
			c.topics[t]++;
			sim_event("subscribe ctx%zu %s (count %d)", ci, show(t).c_str(), c.topics[t]);
		} else if (kind == 6) { // unsubscribe
			std::string t;
			bool        present = false;
			if (!c.topics.empty() && W(0, 3) != 0) {
				size_t k  = (size_t) W(0, (long) c.topics.size() - 1);
				auto   it = c.topics.begin();
				std::advance(it, (long) k);
				if (it->second > 1)
					continue; // ambiguous (subscribed twice): do not unsubscribe
				t       = it->first;
				present = it->second == 1;
			} else {
				t = rand_bytes(3);
				auto it = c.topics.find(t);
				if (it != c.topics.end() && it->second > 1)
					continue;
				present = it != c.topics.end() && it->second == 1;
			}
			if (c.is_sock)
				(void) nng_sub0_socket_unsubscribe(w.sub, t.data(), t.size());
			else
				(void) nng_sub0_ctx_unsubscribe(c.ctx, t.data(), t.size());
			sim_event("unsubscribe ctx%zu %s present=%d", ci, show(t).c_str(), (int) present);
			if (present) {
				c.topics.erase(t);
				std::deque<int> nq;
				for (int id : c.q)
					if (matches(c, w.msgs[(size_t) id].body))
						nq.push_back(id);
					else
						sim_probe("c05_purged_on_unsub");
				c.q = nq;
			}
		} else if (kind == 7 || kind == 8) { // non-blocking receive
			if (c.waiting)
				continue;
			do_recv_nb(w, ci);
		} else { // async receive
			if (c.waiting)
				continue;
			UAio *u = new UAio();
			nng_aio_set_timeout(u->aio, NNG_DURATION_INFINITE);
			u->arm("sub_recv");
			if (c.is_sock)
				nng_socket_recv(w.sub, u->aio);
			else
				nng_ctx_recv(c.ctx, u->aio);
			sim_quiesce(1000000);
			if (!c.q.empty()) {
				int want = c.q.front();
				c.q.pop_front();
				if (!u->poll() || u->result != 0)
					VIOL("missed_delivery", "ctx %zu: queued message %d not handed to a new receive", ci,
					    want);
				nng_msg *m  = nng_aio_get_msg(u->aio);
				int      gi = find_msg(w, nng_msg_body(m), nng_msg_len(m));
				nng_msg_free(m);
				if (gi != want)
					VIOL("wrong_message", "ctx %zu received msg %d expected %d", ci, gi, want);
				if (!c.got.insert(gi).second)
					VIOL("duplicate_delivery", "ctx %zu got message %d twice", ci, gi);
				delete u;
			} else {
				c.waiter  = u;
				c.waiting = true;
				check_waiters(w, -1, "after async recv");
				sim_probe("c05_waiter_armed");
			}
		}
	}
	// drain everything and compare with the model
	for (size_t ci = 0; ci < w.ctxs.size(); ci++) {
		MCtx &c = w.ctxs[ci];
		if (c.waiting) {
			nng_aio_cancel(c.waiter->aio);
			if (c.waiter->wait(10000000000ull) == (nng_err) -1)
				VIOL("cancel_hang", "cancelled receive never completed");
			if (c.waiter->result == 0) {
				VIOL("unexpected_delivery", "ctx %zu cancelled waiter got a message", ci);
			}
			delete c.waiter;
			c.waiter  = NULL;
			c.waiting = false;
		}
		while (!c.q.empty())
			do_recv_nb(w, ci);
		do_recv_nb(w, ci); // must be empty now
	}
	for (size_t i = 1; i < w.ctxs.size(); i++)
		MUST(nng_ctx_close(w.ctxs[i].ctx));
	for (auto ps : w.pubs)
		MUST(nng_socket_close(ps));
	MUST(nng_socket_close(w.sub));
}

static void
seq_cfg(sim_config *cfg, Params *p)
{
	long net = p->draw("net", 0, 3);
	if (net == 1) {
		cfg->seg_mode = 3;
	} else if (net == 2) {
		cfg->seg_mode   = 2;
		cfg->seg_k      = 7;
		cfg->lat_min_ns = 10000;
		cfg->lat_max_ns = 2000000;
	} else if (net == 3) {
		cfg->seg_mode = 1;
		cfg->eagain_p = 0.05;
	}
}

SCENARIO(c05_seq, "C05", seq_cfg, seq_run);

// ---------------------------------------------------------------------------
// Concurrent mode: sound but weaker oracle (DESIGN 7/C05).
struct CWorld;
struct CCtx {
	CWorld *w;
	size_t  idx;
	bool    is_sock;
	nng_ctx ctx;
	// per topic: list of [start_seq, end_seq) intervals (end = UINT64_MAX open)
	std::map<std::string, std::vector<std::pair<uint64_t, uint64_t>>> iv;
	std::set<std::string> seen;
	std::map<int, uint32_t> last_serial; // per publisher
	volatile int stop;
	int          received;
};
struct CWorld {
	nng_socket              sub;
	std::vector<nng_socket> pubs;
	std::vector<CCtx *>     ctxs;
	std::map<std::string, uint64_t> pub_start; // body -> seq at publish call
	int                     npub_each;
	volatile int            pubs_done;
};

static void
conc_publisher(void *a)
{
	std::pair<CWorld *, int> *pa = (std::pair<CWorld *, int> *) a;
	CWorld *w = pa->first;
	int     me = pa->second;
	for (int i = 0; i < w->npub_each; i++) {
		std::string body = rand_bytes(2);
		body += (char) (0x80 | me);
		body += (char) (0x80 | (i >> 6));
		body += (char) (0x80 | (i & 0x3f));
		w->pub_start[body] = sim_steps();
		sim_event("pub%d publish %s @%llu", me, show(body).c_str(), (unsigned long long) sim_steps());
		nng_msg *m = NULL;
		MUST(nng_msg_alloc(&m, 0));
		MUST(nng_msg_append(m, body.data(), body.size()));
		int rv = nng_sendmsg(w->pubs[(size_t) me], m, 0);
		if (rv != 0)
			VIOL("pub_send_failed", "PUB send returned %d", rv);
		if (W(0, 2) == 0)
			sim_sleep_ns((uint64_t) W(0, 2000) * 1000);
	}
	w->pubs_done++;
}

static void
conc_receiver(void *a)
{
	CCtx   *c = (CCtx *) a;
	CWorld *w = c->w;
	UAio    u;
	while (!c->stop) {
		nng_aio_set_timeout(u.aio, 20);
		u.arm("sub_recv");
		if (c->is_sock)
			nng_socket_recv(w->sub, u.aio);
		else
			nng_ctx_recv(c->ctx, u.aio);
		u.wait(0);
		uint64_t now = sim_steps();
		if (u.result != 0)
			continue;
		nng_msg    *m = nng_aio_get_msg(u.aio);
		std::string body((char *) nng_msg_body(m), nng_msg_len(m));
		nng_msg_free(m);
		sim_event("ctx%zu recv %s @%llu", c->idx, show(body).c_str(), (unsigned long long) now);
		auto ps = w->pub_start.find(body);
		if (ps == w->pub_start.end())
			VIOL("altered_message", "ctx %zu received body %s that was never published", c->idx,
			    show(body).c_str());
		if (!c->seen.insert(body).second)
			VIOL("duplicate_delivery", "ctx %zu received %s twice", c->idx, show(body).c_str());
		// a subscription that prefixes the body must have existed at some
		// moment between the publish call and now
		bool ok = false;
		for (auto &kv : c->iv) {
			const std::string &t = kv.first;
			if (t.size() > body.size() || body.compare(0, t.size(), t) != 0)
				continue;
			for (auto &in : kv.second)
				if (in.first <= now && in.second >= ps->second)
					ok = true;
		}
		if (!ok)
			VIOL("unexpected_delivery",
			    "ctx %zu received %s although no prefix subscription existed "
			    "between its publication and its receipt",
			    c->idx, show(body).c_str());
		size_t   n   = body.size();
		int      pub = body[n - 3] & 0x7f;
		uint32_t ser = ((uint32_t) (body[n - 2] & 0x7f) << 6) | (uint32_t) (body[n - 1] & 0x3f);
		auto     ls  = c->last_serial.find(pub);
		if (ls != c->last_serial.end() && ser <= ls->second)
			VIOL("reordered", "ctx %zu: publisher %d serial %u after %u", c->idx, pub, ser, ls->second);
		c->last_serial[pub] = ser;
		c->received++;
		sim_stat("delivered", 1);
	}
}

static void
conc_run(Params *p)
{
	CWorld w;
	int    np   = (int) W(1, 2);
	int    nctx = (int) W(0, 2);
	int    tr   = (int) p->draw("tr", 0, 3);
	w.npub_each = (int) W(3, 25);
	w.pubs_done = 0;
	MUST(nng_sub0_open(&w.sub));
	MUST(nng_socket_set_int(w.sub, NNG_OPT_RECVBUF, (int) W(1, 4)));
	MUST(nng_socket_set_bool(w.sub, NNG_OPT_SUB_PREFNEW, W(0, 1) != 0));
	for (int i = 0; i <= nctx; i++) {
		CCtx *c    = new CCtx();
		c->w       = &w;
		c->idx     = (size_t) i;
		c->is_sock = i == 0;
		c->stop    = 0;
		c->received = 0;
		if (i > 0)
			MUST(nng_ctx_open(&c->ctx, w.sub));
		w.ctxs.push_back(c);
	}
	std::string url = h_url(tr, 2);
	MUST(nng_listen(w.sub, url.c_str(), NULL, 0));
	std::vector<std::pair<CWorld *, int>> pargs((size_t) np);
	for (int i = 0; i < np; i++) {
		nng_socket ps;
		MUST(nng_pub0_open(&ps));
		MUST(nng_dial(ps, url.c_str(), NULL, 0));
		w.pubs.push_back(ps);
		pargs[(size_t) i] = std::make_pair(&w, i);
	}
	sim_quiesce(20000000);
	// initial subscriptions
	for (auto c : w.ctxs) {
		if (W(0, 2) != 0) {
			std::string t = rand_bytes(1);
			int rv = c->is_sock ? nng_sub0_socket_subscribe(w.sub, t.data(), t.size())
			                    : nng_sub0_ctx_subscribe(c->ctx, t.data(), t.size());
			if (rv != 0)
				VIOL("subscribe_failed", "subscribe returned %d", rv);
			c->iv[t].push_back(std::make_pair(sim_steps(), UINT64_MAX));
			sim_event("ctx%zu initial subscribe %s", c->idx, show(t).c_str());
		}
	}
	for (auto c : w.ctxs)
		sim_spawn("recv", conc_receiver, c, 0);
	for (int i = 0; i < np; i++)
		sim_spawn("pub", conc_publisher, &pargs[(size_t) i], 0);
	// subscription churn from the main task
	int nops = (int) W(0, 12);
	for (int op = 0; op < nops && w.pubs_done < np; op++) {
		CCtx       *c = w.ctxs[(size_t) W(0, (long) w.ctxs.size() - 1)];
		std::string t = rand_bytes(2);
		if (W(0, 1) == 0) {
			// the interval is opened BEFORE the call: the subscription
			// may take effect (and a receiver may run) before it returns
			uint64_t s0 = sim_steps();
			auto    &v  = c->iv[t];
			if (v.empty() || v.back().second != UINT64_MAX)
				v.push_back(std::make_pair(s0, UINT64_MAX));
			sim_event("ctx%zu subscribe %s @%llu", c->idx, show(t).c_str(), (unsigned long long) s0);
			int rv = c->is_sock ? nng_sub0_socket_subscribe(w.sub, t.data(), t.size())
			                    : nng_sub0_ctx_subscribe(c->ctx, t.data(), t.size());
			if (rv != 0)
				VIOL("subscribe_failed", "subscribe returned %d", rv);
		} else {
			auto it = c->iv.find(t);
			if (c->is_sock)
				(void) nng_sub0_socket_unsubscribe(w.sub, t.data(), t.size());
			else
				(void) nng_sub0_ctx_unsubscribe(c->ctx, t.data(), t.size());
			if (it != c->iv.end() && !it->second.empty() && it->second.back().second == UINT64_MAX)
				it->second.back().second = sim_steps();
			sim_event("ctx%zu unsubscribe %s @%llu", c->idx, show(t).c_str(), (unsigned long long) sim_steps());
		}
		sim_sleep_ns((uint64_t) W(0, 3000) * 1000);
	}
	while (w.pubs_done < np)
		sim_sleep_ms(1);
	sim_quiesce(5000000); // below the receivers' 20 ms poll timers
	for (auto c : w.ctxs)
		c->stop = 1;
	sim_join_all();
	int total = 0;
	for (auto c : w.ctxs)
		total += c->received;
	if (total > 0)
		sim_stat("nontrivial", 1);
	for (size_t i = 1; i < w.ctxs.size(); i++)
		MUST(nng_ctx_close(w.ctxs[i]->ctx));
	for (auto ps : w.pubs)
		MUST(nng_socket_close(ps));
	MUST(nng_socket_close(w.sub));
	for (auto c : w.ctxs)
		delete c;
}

SCENARIO(c05_conc, "C05", seq_cfg, conc_run);

// ---------------------------------------------------------------------------
// PUB never blocks: subscribers stalled, queues full.
static void
noblock_run(Params *p)
{
	(void) p;
	nng_socket pub, sub;
	MUST(nng_pub0_open(&pub));
	MUST(nng_sub0_open(&sub));
	MUST(nng_socket_set_int(pub, NNG_OPT_SENDBUF, (int) W(1, 4)));
	MUST(nng_sub0_socket_subscribe(sub, "", 0));
	MUST(nng_socket_set_ms(pub, NNG_OPT_SENDTIMEO, 5000));
	std::string url = h_url(W(0, 1) ? TR_TCP : TR_IPC, 3);
	MUST(nng_listen(pub, url.c_str(), NULL, 0));
	MUST(nng_dial(sub, url.c_str(), NULL, 0));
	sim_quiesce(20000000);
	int n = (int) W(10, 60);
	for (int i = 0; i < n; i++) {
		nng_msg *m = tag_msg((size_t) W(20, 3000), 1, 0, (uint32_t) i);
		uint64_t t0 = sim_now_ns(), s0 = sim_stall_total_ns();
		int      rv = nng_sendmsg(pub, m, 0);
		uint64_t dt = sim_now_ns() - t0 - (sim_stall_total_ns() - s0);
		if (rv != 0)
			VIOL("pub_send_failed", "PUB send returned %d with a stalled subscriber", rv);
		if (dt > 50000000ull)
			VIOL("pub_send_blocked",
			    "PUB send %d took %llu ms of virtual time with a stalled "
			    "subscriber (it must drop, not wait)",
			    i, (unsigned long long) (dt / 1000000));
	}
	sim_stat("nontrivial", 1);
	// whatever arrives is whole and in order
	MUST(nng_socket_set_ms(sub, NNG_OPT_RECVTIMEO, 200));
	uint32_t last = 0;
	bool     have = false;
	for (;;) {
		nng_msg *m = NULL;
		if (nng_recvmsg(sub, &m, 0) != 0)
			break;
		Tag t = tag_parse((uint8_t *) nng_msg_body(m), nng_msg_len(m));
		nng_msg_free(m);
		if (!t.ok)
			VIOL("altered_message", "corrupt message received from PUB");
		if (have && t.serial <= last)
			VIOL("reordered", "serial %u after %u", t.serial, last);
		last = t.serial;
		have = true;
	}
	MUST(nng_socket_close(pub));
	MUST(nng_socket_close(sub));
}

static void
noblock_cfg(sim_config *cfg, Params *p)
{
	(void) p;
	cfg->sndbuf_min = 64;
	cfg->sndbuf_max = 512;
	cfg->lat_min_ns = 50000000;
	cfg->lat_max_ns = 150000000;
	cfg->seg_mode   = 3;
}

SCENARIO(c05_noblock, "C05", noblock_cfg, noblock_run);

} // namespace
