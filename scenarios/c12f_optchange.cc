// C12 (sixth file): the options of the REQ socket that govern retransmission
// are changed while the socket is in use.  NNG_OPT_REQ_RESENDTICK is set (to
// the same or to another value) after the first request has been sent, i.e.
// while a request is outstanding and the socket's retry timer is armed - once
// or several times, by the requesting task itself or by another task that
// runs while the timer callback runs; NNG_OPT_REQ_RESENDTIME is changed on the
// socket / on a context (or a context is re-opened and inherits the socket's
// value) between two requests.  The connection stays up the whole time and
// the replier (a raw REP socket) silently ignores the first copies of every
// request and answers a later one - which therefore has to come.
//
// Oracle clause                          phrase of the statement
//   reply_never_arrived  (request sent   "retransmitted ... whenever NNG_OPT_REQ_RESENDTIME elapses
//     with a finite resend time: the      without a reply, until a reply arrives ...; hence, as long
//     receive has not returned within     as some replier eventually becomes reachable and answers,
//     (resend time + largest tick ever    the requester's receive eventually succeeds with a reply to
//     set) x (copies ignored + 1) +       that request"
//     slack, thread stalls excluded;
//     or the receive failed)
//   reply_misrouted                      "succeeds with a reply to that request"
//   resent_although_disabled (request    "With resending disabled (NNG_DURATION_INFINITE) the request
//     sent with resend time infinite      is put on the wire at most once"
//     reached the replier twice)
// Not asserted, only counted (sim_probe): whether a request sent with resending
// disabled is answered, the spacing of the retransmissions, how many copies the
// replier saw beyond the one it answered.  Nothing is asserted for a request
// whose resend time is infinite except "at most once"; no option that governs
// a request is changed while that request is outstanding, except the tick.
#include "../harness/util.h"

#include <map>

namespace {

#define MS 1000000ull

struct OcReq {
	int          cli;
	uint32_t     serial;
	nng_duration resend; // in force when it was sent (ms, or NNG_DURATION_INFINITE)
	int          drops, seen;
	uint64_t     t_sent, stall0;
	uint64_t     t_seen[8];
};

struct OcCli {
	int          idx;
	bool         is_sock;
	nng_ctx      ctx;
	nng_duration resend;
	UAio        *snd, *rcv;
	OcReq       *cur;
};

struct OcOp {
	int          kind; // 0 set tick, 1 read tick back, 2 set the socket's resend time
	uint64_t     delay_ns;
	nng_duration val;
};

struct OcWorld {
	nng_socket                    req, rep;
	std::vector<OcCli *>          clis;
	std::map<uint64_t, OcReq *>   reqs; // (origin << 32 | serial)
	std::vector<OcOp>             ops;
	nng_duration                  tick, tick_max, sock_resend;
	bool                          have_sock_cli;
	int                           tick_sets_armed; // tick set after the first request was sent
	volatile int                  stop;
};

static void
oc_replier(void *a)
{
	OcWorld *w = (OcWorld *) a;
	while (!w->stop) {
		nng_msg *m = NULL;
		if (nng_recvmsg(w->rep, &m, 0) != 0) // 20 ms receive timeout
			continue;
		Tag  t  = tag_parse((const uint8_t *) nng_msg_body(m), nng_msg_len(m));
		auto it = t.ok ? w->reqs.find(((uint64_t) t.origin << 32) | t.serial) : w->reqs.end();
		if (it == w->reqs.end()) {
			nng_msg_free(m);
			VIOL("request_altered", "the replier received a request nobody made");
		}
		OcReq *r = it->second;
		if (r->seen < 8)
			r->t_seen[r->seen] = sim_now_ns();
		r->seen++;
		sim_event("replier: request %u of client %d, transmission %d (ignoring the first %d)", r->serial, r->cli, r->seen,
		    r->drops);
		if (r->seen <= r->drops) {
			nng_msg_free(m);
			continue;
		}
		if (nng_sendmsg(w->rep, m, 0) != 0) // raw REP: the header routes it back
			nng_msg_free(m);
	}
}

static void
oc_do_ops(void *a)
{
	OcWorld *w = (OcWorld *) a;
	for (auto &op : w->ops) {
		if (op.delay_ns)
			sim_sleep_ns(op.delay_ns);
		switch (op.kind) {
		case 0:
			sim_event("set NNG_OPT_REQ_RESENDTICK %d ms (was %d ms)", op.val, w->tick);
			MUST(nng_socket_set_ms(w->req, NNG_OPT_REQ_RESENDTICK, op.val));
			w->tick = op.val;
			w->tick_sets_armed++;
			break;
		case 1: {
			nng_duration d = 0;
			MUST(nng_socket_get_ms(w->req, NNG_OPT_REQ_RESENDTICK, &d));
			if (d != w->tick)
				sim_probe("c12_optchange_tick_reads_back_differently");
			break;
		}
		default:
			// governs the socket's own requests (there are none in this
			// run) and what contexts opened later inherit
			sim_event("set NNG_OPT_REQ_RESENDTIME %d ms on the socket (was %d ms)", op.val, w->sock_resend);
			MUST(nng_socket_set_ms(w->req, NNG_OPT_REQ_RESENDTIME, op.val));
			w->sock_resend = op.val;
			break;
		}
	}
}

static const nng_duration oc_rss[]   = { 50, 100, 300 };
static const nng_duration oc_ticks[] = { 10, 20, 50, 100 };

static void
oc_cfg(sim_config *cfg, Params *p)
{
	(void) p;
	cfg->stall_p = cfg->stall_p / 4; // bounds subtract stalls; keep them rare so most runs stay tight
}

static void
oc_run(Params *p)
{
	OcWorld w;
	w.stop            = 0;
	w.tick_sets_armed = 0;
	int  tr           = (int) p->draw("tr", 0, 2);
	bool req_listens  = p->draw("flip", 0, 1) != 0;
	int  rounds       = 1 + (int) p->draw("rounds", 0, 2);
	w.sock_resend     = oc_rss[W(0, 2)];
	w.tick            = oc_ticks[W(0, 3)];
	w.tick_max        = w.tick;
	MUST(nng_req0_open(&w.req));
	MUST(nng_socket_set_ms(w.req, NNG_OPT_REQ_RESENDTIME, w.sock_resend));
	// before the first request: the retry timer has never been started
	MUST(nng_socket_set_ms(w.req, NNG_OPT_REQ_RESENDTICK, w.tick));
	if (W(0, 3) == 1) {
		w.tick     = oc_ticks[W(0, 3)];
		w.tick_max = std::max(w.tick_max, w.tick);
		MUST(nng_socket_set_ms(w.req, NNG_OPT_REQ_RESENDTICK, w.tick));
	}
	MUST(nng_socket_set_ms(w.req, NNG_OPT_RECONNMINT, 10));
	MUST(nng_socket_set_ms(w.req, NNG_OPT_RECONNMAXT, 10));
	MUST(nng_rep0_open_raw(&w.rep));
	MUST(nng_socket_set_ms(w.rep, NNG_OPT_RECVTIMEO, 20));
	MUST(nng_socket_set_ms(w.rep, NNG_OPT_SENDTIMEO, 1000));
	std::string url = h_url(tr, 57);
	if (req_listens) {
		MUST(nng_listen(w.req, url.c_str(), NULL, 0));
		MUST(nng_dial(w.rep, url.c_str(), NULL, NNG_FLAG_NONBLOCK));
	} else {
		MUST(nng_listen(w.rep, url.c_str(), NULL, 0));
		MUST(nng_dial(w.req, url.c_str(), NULL, NNG_FLAG_NONBLOCK));
	}
	int n           = 1 + (int) W(0, 1);
	w.have_sock_cli = false;
	for (int i = 0; i < n; i++) {
		OcCli *c   = new OcCli();
		c->idx     = i;
		c->is_sock = i == 0 && W(0, 1) == 0;
		c->resend  = w.sock_resend;
		c->cur     = NULL;
		if (c->is_sock) {
			w.have_sock_cli = true;
		} else {
			MUST(nng_ctx_open(&c->ctx, w.req)); // inherits the socket's resend time
			if (W(0, 1)) {
				c->resend = oc_rss[W(0, 2)];
				MUST(nng_ctx_set_ms(c->ctx, NNG_OPT_REQ_RESENDTIME, c->resend));
			}
		}
		c->snd = new UAio();
		c->rcv = new UAio();
		w.clis.push_back(c);
	}
	sim_event("c12_optchange tr=%s %s, %d client(s), %d round(s), tick %d ms", h_tr_name(tr),
	    req_listens ? "requester listens" : "requester dials", n, rounds, w.tick);
	if (W(0, 3) != 1)
		sim_quiesce(10 * MS); // usually the connection is up before the first request
	int rt = sim_spawn("replier", oc_replier, &w, 0);

	for (int round = 1; round <= rounds; round++) {
		// ---- between two requests: the resend time of the next one
		if (round > 1) {
			for (auto c : w.clis) {
				int how = (int) W(0, 3);
				if (how == 0)
					continue;
				nng_duration v = W(0, 4) == 4 ? NNG_DURATION_INFINITE : oc_rss[W(0, 2)];
				if (c->is_sock) {
					MUST(nng_socket_set_ms(w.req, NNG_OPT_REQ_RESENDTIME, v));
					w.sock_resend = v;
					c->resend     = v;
				} else if (how == 3) {
					// a fresh context inherits what the socket holds now
					MUST(nng_ctx_close(c->ctx));
					MUST(nng_ctx_open(&c->ctx, w.req));
					c->resend = w.sock_resend;
				} else {
					MUST(nng_ctx_set_ms(c->ctx, NNG_OPT_REQ_RESENDTIME, v));
					c->resend = v;
				}
				sim_event("client %d: resend time for the next request %d ms%s", c->idx, c->resend,
				    how == 3 && !c->is_sock ? " (new context, inherited)" : "");
			}
		}
		// ---- this round's option changes, drawn before anything runs
		w.ops.clear();
		nng_duration rs_max = 50;
		for (auto c : w.clis)
			rs_max = std::max(rs_max, c->resend);
		int          nops      = (int) W(0, 3);
		nng_duration plan_tick = w.tick;
		for (int k = 0; k < nops; k++) {
			OcOp op;
			int  kind = (int) W(0, 5);
			op.kind   = kind <= 3 ? 0 : kind == 4 ? 1 : 2;
			if (op.kind == 2 && w.have_sock_cli)
				op.kind = 0;
			// the tick is set to the value it has, or to another one
			op.val = op.kind == 2 ? oc_rss[W(0, 2)] : W(0, 2) == 0 ? plan_tick : oc_ticks[W(0, 3)];
			if (op.kind == 0)
				plan_tick = op.val;
			switch (W(0, 2)) {
			case 0:
				op.delay_ns = (uint64_t) W(0, 2000) * 1000; // at once / racing with the transmission
				break;
			case 1:
				op.delay_ns = (uint64_t) W(0, (long) w.tick_max * 2000) * 1000; // within a tick or two
				break;
			default:
				op.delay_ns = (uint64_t) W(0, ((long) rs_max + w.tick_max) * 1000) * 1000; // around the expiry
				break;
			}
			if (op.kind == 0)
				w.tick_max = std::max(w.tick_max, op.val);
			w.ops.push_back(op);
		}
		bool concurrent = nops > 0 && W(0, 1) != 0;
		// ---- the requests
		for (auto c : w.clis) {
			OcReq *r  = new OcReq();
			r->cli    = c->idx;
			r->serial = (uint32_t) round;
			r->resend = c->resend;
			r->drops  = r->resend == NNG_DURATION_INFINITE ? 0 : 1 + (int) W(0, 1);
			r->seen   = 0;
			c->cur    = r;
			w.reqs[((uint64_t) (c->idx + 1) << 32) | r->serial] = r;
			nng_aio_set_msg(c->snd->aio, tag_msg(40, (uint16_t) (c->idx + 1), 0, r->serial));
			nng_aio_set_timeout(c->snd->aio, 20000);
			c->snd->arm("oc_send");
			r->stall0 = sim_stall_total_ns();
			if (c->is_sock)
				nng_socket_send(w.req, c->snd->aio);
			else
				nng_ctx_send(c->ctx, c->snd->aio);
			sim_event("client %d (%s): request %u, resend time %d ms, the replier ignores %d cop%s", c->idx,
			    c->is_sock ? "socket" : "context", r->serial, r->resend, r->drops, r->drops == 1 ? "y" : "ies");
		}
		int ot = -1;
		if (concurrent)
			ot = sim_spawn("optsetter", oc_do_ops, &w, 0);
		for (auto c : w.clis) {
			OcReq *r = c->cur;
			// a replier is reachable: the request gets onto a connection
			for (;;) {
				if (c->snd->wait(20 * MS) != (nng_err) -1)
					break;
				if (sim_now_ns() - c->snd->t_submit_ns > 3000 * MS + (sim_stall_total_ns() - r->stall0))
					VIOL("reply_never_arrived",
					    "client %d: request %u is still not on a connection 3 s after it was made (replier reachable)",
					    c->idx, r->serial);
			}
			if (c->snd->result != 0) {
				nng_msg_free(nng_aio_get_msg(c->snd->aio));
				VIOL("request_send_failed", "client %d: send returned %d", c->idx, (int) c->snd->result);
			}
			r->t_sent = sim_now_ns();
		}
		if (!concurrent)
			oc_do_ops(&w);
		for (auto c : w.clis) {
			// without retransmission nothing bounds the wait but this
			nng_aio_set_timeout(c->rcv->aio, c->cur->resend == NNG_DURATION_INFINITE ? 2000 : NNG_DURATION_INFINITE);
			c->rcv->arm("oc_recv");
			if (c->is_sock)
				nng_socket_recv(w.req, c->rcv->aio);
			else
				nng_ctx_recv(c->ctx, c->rcv->aio);
		}
		for (auto c : w.clis) {
			OcReq *r = c->cur;
			if (r->resend == NNG_DURATION_INFINITE) {
				c->rcv->wait(0);
				sim_probe("c12_optchange_request_with_resend_disabled");
				if (c->rcv->result == 0)
					nng_msg_free(nng_aio_get_msg(c->rcv->aio));
				else
					sim_probe("c12_optchange_noretry_unanswered");
				continue;
			}
			// every ignored copy costs at most one resend time plus one tick
			// (the largest ever set: a sleep of the old length may be in progress)
			uint64_t bound = (uint64_t) (r->drops + 1) * (uint64_t) (r->resend + w.tick_max) * MS + 500 * MS;
			for (;;) {
				if (c->rcv->wait(20 * MS) != (nng_err) -1)
					break;
				uint64_t used = sim_now_ns() - r->t_sent, stalled = sim_stall_total_ns() - r->stall0;
				if (used > bound + stalled) {
					VIOL("reply_never_arrived",
					    "client %d, request %u (sent with resend time %d ms; tick now %d ms, largest ever set %d ms, "
					    "set %d time(s) since the first request was sent): the replier ignored %d transmission(s) and "
					    "answers the next, but %.0f ms after the request was sent it has seen only %d "
					    "transmission(s), the last one %.0f ms ago, with the connection up all the time",
					    c->idx, r->serial, r->resend, w.tick, w.tick_max, w.tick_sets_armed, r->drops,
					    (double) used / 1e6, r->seen,
					    r->seen > 0 ? (double) (sim_now_ns() - r->t_seen[std::min(r->seen, 8) - 1]) / 1e6 : -1.0);
				}
			}
			if (c->rcv->result != 0)
				VIOL("reply_never_arrived", "client %d, request %u: receive failed with %d", c->idx, r->serial,
				    (int) c->rcv->result);
			nng_msg *m = nng_aio_get_msg(c->rcv->aio);
			Tag      t = tag_parse((const uint8_t *) nng_msg_body(m), nng_msg_len(m));
			nng_msg_free(m);
			if (!t.ok || t.origin != (uint16_t) (c->idx + 1) || t.serial != r->serial)
				VIOL("reply_misrouted", "client %d received a reply that is not the answer to its request %u", c->idx,
				    r->serial);
			for (int k = 1; k < std::min(r->seen, 8); k++)
				if (r->t_seen[k] - r->t_seen[k - 1] > (uint64_t) (r->resend + w.tick_max + 50) * MS)
					sim_probe("c12_optchange_wide_gap_between_copies"); // thread stalls not excluded
			if (r->seen > r->drops + 1)
				sim_probe("c12_optchange_extra_copies");
			if (w.tick_sets_armed > 0)
				sim_probe("c12_optchange_answered_after_tick_set");
			sim_stat("nontrivial", 1);
		}
		if (ot >= 0)
			sim_join(ot);
		// let copies that are still on their way reach the replier
		if (W(0, 1))
			sim_sleep_ns((uint64_t) W(1, 60) * MS);
		for (auto c : w.clis)
			if (c->cur->resend == NNG_DURATION_INFINITE && c->cur->seen > 1)
				VIOL("resent_although_disabled",
				    "client %d, request %u was sent with resend time NNG_DURATION_INFINITE and reached the replier %d "
				    "times (connection up all the time)",
				    c->idx, c->cur->serial, c->cur->seen);
	}
	w.stop = 1;
	sim_join(rt);
	for (auto c : w.clis) {
		if (!c->is_sock)
			MUST(nng_ctx_close(c->ctx));
		delete c->snd;
		delete c->rcv;
		delete c;
	}
	for (auto &kv : w.reqs)
		delete kv.second;
	MUST(nng_socket_close(w.req));
	MUST(nng_socket_close(w.rep));
}
SCENARIO(c12_optchange, "C12", oc_cfg, oc_run);

} // namespace
