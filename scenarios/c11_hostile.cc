// C11 Hostile or broken peers cannot crash, wedge or bypass size limits.
//
// A victim nng socket (every protocol, cooked and raw) is attacked by raw
// harness peers speaking mutated SP/TCP, SP/IPC, SP/socket-fd, WebSocket and
// SP/UDP sessions while well-behaved nng peers talk to the same socket.
//
// Oracle clauses (each maps to a phrase of the property statement):
//   asan:* / ubsan:* / panic / deadlock            "does not crash, corrupt memory, hang"
//   spin                                           "or spin": with every harness task stopped and
//        every hostile connection gone, 10 ms of virtual time must not cost more than 20000
//        scheduling points (an idle library takes a few dozen)
//   control_starved / control_starved_after        "only the offending connection is dropped ...
//        all other connections keep working": a connection established before the attack must
//        complete an exchange begun during / after the attack within a (generous) bound
//   control_conn_dropped                           "only the offending connection is dropped"
//   listener_dead                                  "the listener ... keep[s] working": a
//        well-behaved peer that connects after the attack completes an exchange within a bound
//        (for a dialing victim: its other dialer reaches a well-behaved listener that takes over
//        the hostile address)
//   oversize_delivered                             "a message larger than the configured
//        NNG_OPT_RECVMAXSZ is never delivered"
//   oversize_not_closed                            "and closes that connection" (only asserted when
//        the oversize length field follows a correct handshake and only intact frames)
//   malformed_delivered / unexpected_delivery      "messages with malformed protocol headers are
//        never delivered to the application": every message the victim application receives is
//        either from a well-behaved peer or equal to a message that a strict reference decoder
//        of the hostile byte stream (handshake, framing, RECVMAXSZ, protocol header model) calls
//        deliverable
//        (tcp/ipc/socket/ws: the peer sees EOF or RST; udp: the peer gets a DISC datagram)
// Things nng does that the statement does not promise (10 s handshake timeout - none on socket://,
// which malformed inputs close the connection, hop-limit drops, ws close codes, acceptance of an
// HTTP/1.0 upgrade request, tolerance of fragmented ws control frames) are counted with sim_probe
// only.
//
// Scenarios: c11_sp (SP over tcp / ipc / socket://), c11_ws (WebSocket+HTTP), c11_udp (SP/UDP).
// In each the victim either listens (hostile peers connect) or dials (a raw harness listener plays
// the hostile server and a well-behaved nng listener takes the address over afterwards).
// Reference models: sp_decode (strict SP stream decoder), ws_decode (RFC 6455 decoder, strict up
// to the first rule violation, lenient and non-binding behind it), udp_account (SP/UDP connection
// state machine), model_payload (protocol header models of all socket types, cooked and raw).
#include "../harness/util.h"

#include <arpa/inet.h>
#include <errno.h>
#include <netinet/in.h>
#include <poll.h>
#include <stddef.h>
#include <sys/socket.h>
#include <sys/un.h>
#include <unistd.h>

#include <algorithm>
#include <set>

namespace {

typedef std::vector<uint8_t> Bytes;

static const uint64_t MS  = 1000000ull;
static const uint64_t SEC = 1000000000ull;
// request/survey window of the well-formed traffic: long compared with injected thread stalls
static const uint64_t RQ_WINDOW_MS = 500;
static const int      RESEND_MS    = 150;
// receive timeouts are only the polling granularity of the harness loops; send timeouts must be
// long compared with injected stalls (a send waits behind the previous message on its pipe)
static const int POLL_MS = 100;
static const int SEND_MS = 300;

// ------------------------------------------------------------------ protocols
enum { V_PAIR0 = 0, V_PAIR1, V_BUS, V_SUB, V_PULL, V_REP, V_RESP, V_REQ, V_SURV, V_PUB, V_PUSH, V_N };
// protocol header models (what a conforming receiver of this socket type expects in front
// of the body)
enum { HM_NONE = 0, HM_HOP, HM_BT_TTL, HM_ID, HM_BT, HM_NORECV };
// transports
enum { X_TCP = 0, X_IPC, X_SFD, X_WS, X_UDP };

struct PInfo {
	const char *name;     // SP name (ws sub-protocol prefix)
	uint16_t    id;       // SP protocol number
	int         peer;     // V_* of the peer protocol
	bool        can_raw;  // raw mode has a receive path of its own
	int (*open)(nng_socket *);
	int (*open_raw)(nng_socket *);
};

static const PInfo PI[V_N] = {
	{ "pair", 0x10, V_PAIR0, true, nng_pair0_open, nng_pair0_open_raw },
	{ "pair1", 0x11, V_PAIR1, true, nng_pair1_open, nng_pair1_open_raw },
	{ "bus", 0x70, V_BUS, true, nng_bus0_open, nng_bus0_open_raw },
	{ "sub", 0x21, V_PUB, true, nng_sub0_open, nng_sub0_open_raw },
	{ "pull", 0x51, V_PUSH, false, nng_pull0_open, nng_pull0_open_raw },
	{ "rep", 0x31, V_REQ, true, nng_rep0_open, nng_rep0_open_raw },
	{ "respondent", 0x63, V_SURV, true, nng_respondent0_open, nng_respondent0_open_raw },
	{ "req", 0x30, V_REP, true, nng_req0_open, nng_req0_open_raw },
	{ "surveyor", 0x62, V_RESP, true, nng_surveyor0_open, nng_surveyor0_open_raw },
	{ "pub", 0x20, V_SUB, false, nng_pub0_open, nng_pub0_open_raw },
	{ "push", 0x50, V_PULL, false, nng_push0_open, nng_push0_open_raw },
};

static int
header_model(int vt, bool raw)
{
	switch (vt) {
	case V_PAIR1:
		return HM_HOP;
	case V_REP:
	case V_RESP:
		return HM_BT_TTL;
	case V_REQ:
	case V_SURV:
		return raw ? HM_BT : HM_ID;
	case V_PUB:
	case V_PUSH:
		return HM_NORECV;
	default:
		return HM_NONE;
	}
}

static bool v_receives(int vt) { return vt != V_PUB && vt != V_PUSH && vt != V_REQ && vt != V_SURV; }
static bool v_transmits(int vt) { return vt == V_PAIR0 || vt == V_PAIR1 || vt == V_BUS || vt == V_PUB || vt == V_PUSH; }
static bool v_requests(int vt) { return vt == V_REQ || vt == V_SURV; }
static bool v_replies(int vt) { return vt == V_REP || vt == V_RESP; }

// origins of well-formed traffic
enum { O_V = 1, O_CTL = 2, O_LATE = 3 };

// ------------------------------------------------------------------ model
enum { CL_VALID = 0, CL_DONTCARE };

struct Expect {
	int   cls;
	Bytes body;
};

struct ConnModel {
	std::vector<Expect> exp;
	bool                must_close; // an over-RECVMAXSZ length field follows only intact traffic
	size_t              must_close_off;
	bool                handshake_ok;
	ConnModel() : must_close(false), must_close_off(0), handshake_ok(false) {}
};

struct World;

// a well-behaved peer (control connection or late joiner)
struct Good {
	World       *w;
	int          who;
	const char  *nm;
	nng_socket   s;
	bool         open;
	volatile int stop;
	uint64_t     v2p, p2v, rt; // send time (ns) of the latest completed transfer, 0 = none
	bool         any_v2p, any_p2v, any_rt;
	int          dropped;
	volatile int added;
	uint32_t     serial;
	std::map<uint32_t, uint64_t> sent;
	int          period_ms;
	std::vector<int> tids;
	nng_listener gl; // socket:// only
	bool         gl_made;
	int          redials;
};

struct Foreign {
	Bytes    body;
	size_t   hdr_len;
	uint64_t t;
};

struct Sess;

struct World {
	Params *p;
	int     vt;
	bool    raw;
	int     hm;
	int     tr;
	bool    vdial;
	size_t  rcvmax; // 0 = unlimited
	size_t  rcvmax_eff;
	int     ttl;
	int     period_ms;
	bool    has_ctl;
	nng_socket   V;
	nng_listener VL;
	nng_dialer   VD;
	Good    ctl, late;
	std::map<uint32_t, uint64_t> vsent;
	uint32_t     vserial;
	volatile int vstop;
	bool         late_limit;     // RECVMAXSZ is lowered on the listener after the hostile peers have connected
	volatile int late_connected; // hostile connections open (nothing sent yet)
	volatile int late_go;        // the limit is in place: play
	std::vector<int> vtids;
	std::vector<Foreign> foreign;
	std::vector<Sess *>  sess;
	int     good_max; // largest well-formed message body
	// socket:// hand-overs are serialised unless sfd_race=1 (concurrent hand-over found the
	// listen-queue defect of core/sockfd.c, fixed since)
	volatile int sfd_busy;
	bool         sfd_race;
	// ws
	std::string ws_path, ws_host;
	// udp
	uint16_t udp_port;
};

static Good *
good_of(World *w, int origin)
{
	return origin == O_CTL ? &w->ctl : origin == O_LATE ? &w->late : NULL;
}

static uint32_t
be32(const uint8_t *p)
{
	return ((uint32_t) p[0] << 24) | ((uint32_t) p[1] << 16) | ((uint32_t) p[2] << 8) | p[3];
}
static uint64_t
be64(const uint8_t *p)
{
	return ((uint64_t) be32(p) << 32) | be32(p + 4);
}
static void
put_be16(Bytes &v, uint16_t x)
{
	v.push_back((uint8_t) (x >> 8));
	v.push_back((uint8_t) x);
}
static void
put_be32(Bytes &v, uint32_t x)
{
	put_be16(v, (uint16_t) (x >> 16));
	put_be16(v, (uint16_t) x);
}
static void
put_be64(Bytes &v, uint64_t x)
{
	put_be32(v, (uint32_t) (x >> 32));
	put_be32(v, (uint32_t) x);
}
static void
append(Bytes &v, const Bytes &x)
{
	v.insert(v.end(), x.begin(), x.end());
}
static void
append(Bytes &v, const char *s)
{
	v.insert(v.end(), (const uint8_t *) s, (const uint8_t *) s + strlen(s));
}

// Protocol header model: what does a conforming socket of the victim's type do with this SP
// message (as carried by the transport)?  Returns false if it is not deliverable at all
// (malformed header / no receive path).
static bool
model_payload(const World *w, const uint8_t *pl, size_t n, Expect *e)
{
	size_t o = 0;
	e->cls   = CL_VALID;
	switch (w->hm) {
	case HM_NONE:
		break;
	case HM_NORECV:
		return false;
	case HM_HOP: {
		if (n < 4)
			return false;
		uint32_t h = be32(pl);
		if (h & 0xffffff00u)
			return false;
		if ((int) h > w->ttl)
			e->cls = CL_DONTCARE; // over the hop limit: nng drops, C13's business
		o = 4;
		break;
	}
	case HM_BT_TTL:
	case HM_BT: {
		int words = 0;
		for (;;) {
			if (n - o < 4)
				return false; // backtrace not terminated
			uint32_t x = be32(pl + o);
			o += 4;
			words++;
			if (x & 0x80000000u)
				break;
		}
		if (w->hm == HM_BT_TTL && words > w->ttl)
			e->cls = CL_DONTCARE;
		break;
	}
	case HM_ID: {
		if (n < 4)
			return false;
		if (!(pl[0] & 0x80))
			return false; // not a request/survey id
		e->cls = CL_DONTCARE; // delivered only if it names the outstanding request (C04/C07)
		o      = 4;
		break;
	}
	}
	e->body.assign(pl + o, pl + n);
	return true;
}

// ------------------------------------------------------------------ well-formed traffic
static void
pipe_cb(nng_pipe p, nng_pipe_ev ev, void *arg)
{
	(void) p;
	Good *g = (Good *) arg;
	if (ev == NNG_PIPE_EV_ADD_POST)
		g->added++;
	if (ev == NNG_PIPE_EV_REM_POST && g->open) {
		g->dropped++;
		sim_event("%s: connection removed (REM_POST)", g->nm);
	}
}

static void
vpipe_cb(nng_pipe p, nng_pipe_ev ev, void *arg)
{
	(void) arg;
	sim_event("victim: pipe %u %s", (unsigned) nng_pipe_id(p),
	    ev == NNG_PIPE_EV_ADD_PRE ? "ADD_PRE" : ev == NNG_PIPE_EV_ADD_POST ? "ADD_POST" : "REM_POST");
}

static size_t
good_len(World *w)
{
	return (size_t) W(TAG_MIN, w->good_max);
}

// the victim application got a message
static void
victim_delivery(World *w, nng_msg *m)
{
	const uint8_t *b  = (const uint8_t *) nng_msg_body(m);
	size_t         n  = nng_msg_len(m);
	size_t         hl = nng_msg_header_len(m);
	sim_stat("v_delivered", 1);
	if (w->rcvmax_eff > 0 && n > w->rcvmax_eff)
		VIOL("oversize_delivered", "victim %s%s received a %zu byte body, RECVMAXSZ is %zu", PI[w->vt].name,
		    w->raw ? "(raw)" : "", n, w->rcvmax_eff);
	Tag   t = tag_parse(b, n);
	Good *g = t.ok ? good_of(w, t.origin) : NULL;
	if (g != NULL) {
		auto it = g->sent.find(t.serial);
		if (it == g->sent.end())
			VIOL("unexpected_delivery", "well-formed message serial %u from %s was never sent", t.serial, g->nm);
		if (v_requests(w->vt)) {
			if (t.stream == 1) {
				auto vs = w->vsent.find(t.serial);
				if (vs != w->vsent.end() && (!g->any_rt || vs->second > g->rt)) {
					g->rt     = vs->second;
					g->any_rt = true;
				}
			}
			nng_msg_free(m);
			return;
		}
		if (!g->any_p2v || it->second > g->p2v) {
			g->p2v     = it->second;
			g->any_p2v = true;
		}
		if (v_replies(w->vt)) {
			// answer: same header (raw mode keeps the backtrace), our own body
			nng_msg_clear(m);
			size_t len = good_len(w);
			Bytes tb(len);
			tag_fill(tb.data(), len, O_V, 1, t.serial);
			MUST(nng_msg_append(m, tb.data(), len));
			if (nng_sendmsg(w->V, m, 0) != 0)
				nng_msg_free(m);
			return;
		}
		nng_msg_free(m);
		return;
	}
	// not from a well-behaved peer: judged against the reference decoder at the end
	Foreign f;
	f.body.assign(b, b + n);
	f.hdr_len = hl;
	f.t       = sim_now_ns();
	w->foreign.push_back(f);
	sim_event("victim received foreign message len %zu hdr %zu: %s", n, hl, h_hex(b, n, 12).c_str());
	if (v_replies(w->vt) && W(0, 2) != 0) {
		// answer the hostile peer too (exercises the send path towards it)
		nng_msg_clear(m);
		const char *r = "reply-to-hostile";
		MUST(nng_msg_append(m, r, strlen(r)));
		if (nng_sendmsg(w->V, m, 0) != 0)
			nng_msg_free(m);
		return;
	}
	nng_msg_free(m);
}

static void
victim_rx(void *a)
{
	World *w = (World *) a;
	while (!w->vstop) {
		nng_msg *m  = NULL;
		int      rv = nng_recvmsg(w->V, &m, 0);
		if (rv == 0) {
			victim_delivery(w, m);
			continue;
		}
		if (rv != NNG_ETIMEDOUT)
			sim_sleep_ms(1);
	}
}

static nng_msg *
victim_msg(World *w, int stream, uint32_t serial)
{
	nng_msg *m = tag_msg(good_len(w), O_V, (uint16_t) stream, serial);
	if (m == NULL)
		h_fatal("tag_msg failed");
	if (w->raw) {
		if (w->vt == V_PAIR1)
			MUST(nng_msg_header_append_u32(m, 1));
		else if (v_requests(w->vt))
			MUST(nng_msg_header_append_u32(m, 0x80000000u | serial));
	}
	return m;
}

static void
victim_tx(void *a)
{
	World *w = (World *) a;
	while (!w->vstop) {
		uint32_t s  = w->vserial++;
		nng_msg *m  = victim_msg(w, 0, s);
		w->vsent[s] = sim_now_ns();
		int rv = nng_sendmsg(w->V, m, 0);
		if (rv != 0)
			nng_msg_free(m);
		if (w->p->i("dbg", 0))
			sim_event("victim_tx: serial %u rv %d", s, rv);
		// self-clocked: wait (a while) for the message to reach a well-behaved peer before the
		// next one, so that a slow network is not flooded
		for (int i = 0; i < std::max(1, 200 / w->period_ms) && !w->vstop; i++) {
			sim_sleep_ms((uint64_t) w->period_ms);
			uint64_t t = w->vsent[s];
			if ((w->ctl.open && w->ctl.any_v2p && w->ctl.v2p >= t) ||
			    (w->late.open && w->late.any_v2p && w->late.v2p >= t))
				break;
		}
	}
}

static void
victim_rq(void *a)
{
	World *w = (World *) a;
	while (!w->vstop) {
		uint32_t s  = w->vserial++;
		nng_msg *m  = victim_msg(w, 0, s);
		w->vsent[s] = sim_now_ns();
		if (nng_sendmsg(w->V, m, 0) != 0) {
			nng_msg_free(m);
			sim_sleep_ms((uint64_t) w->period_ms);
			continue;
		}
		// collect answers: until every well-behaved peer has answered, at most one window
		// (the window is long compared with injected thread stalls)
		uint64_t until = sim_now_ns() + RQ_WINDOW_MS * MS;
		int      got   = 0;
		while (!w->vstop && sim_now_ns() < until) {
			nng_msg *r  = NULL;
			int      rv = nng_recvmsg(w->V, &r, 0);
			if (rv == 0) {
				Tag t = tag_parse((const uint8_t *) nng_msg_body(r), nng_msg_len(r));
				if (t.ok && good_of(w, t.origin) != NULL && t.stream == 1 && t.serial == s)
					got++;
				victim_delivery(w, r);
				if (got > 0 && (w->vt == V_REQ || got >= (w->ctl.open ? 1 : 0) + (w->late.open ? 1 : 0)))
					break;
			} else if (rv == NNG_ESTATE) {
				break; // survey over / no request outstanding
			} else if (rv != NNG_ETIMEDOUT) {
				sim_sleep_ms(1);
			}
		}
		sim_sleep_ms((uint64_t) W(1, w->period_ms));
	}
}

// --- well-behaved peers
static void
good_rx(void *a)
{
	Good  *g = (Good *) a;
	World *w = g->w;
	while (!g->stop) {
		nng_msg *m  = NULL;
		int      rv = nng_recvmsg(g->s, &m, 0);
		if (rv != 0) {
			if (rv != NNG_ETIMEDOUT)
				sim_sleep_ms(1);
			continue;
		}
		Tag t = tag_parse((const uint8_t *) nng_msg_body(m), nng_msg_len(m));
		if (t.ok && t.origin == O_V && t.stream == 0) {
			auto it = w->vsent.find(t.serial);
			if (it != w->vsent.end() && (!g->any_v2p || it->second > g->v2p)) {
				g->v2p     = it->second;
				g->any_v2p = true;
			}
			if (v_requests(w->vt)) {
				// we are the replier/respondent: answer with our own body
				nng_msg_clear(m);
				size_t len = good_len(w);
				Bytes  tb(len);
				tag_fill(tb.data(), len, (uint16_t) g->who, 1, t.serial);
				MUST(nng_msg_append(m, tb.data(), len));
				g->sent[t.serial] = sim_now_ns();
				if (nng_sendmsg(g->s, m, 0) != 0)
					nng_msg_free(m);
				continue;
			}
		} else {
			sim_probe("c11_good_peer_got_foreign");
		}
		nng_msg_free(m);
	}
}

static void
good_tx(void *a)
{
	Good  *g = (Good *) a;
	World *w = g->w;
	while (!g->stop) {
		uint32_t s = g->serial++;
		nng_msg *m = tag_msg(good_len(w), (uint16_t) g->who, 0, s);
		g->sent[s] = sim_now_ns();
		if (nng_sendmsg(g->s, m, 0) != 0)
			nng_msg_free(m);
		for (int i = 0; i < std::max(1, 200 / g->period_ms) && !g->stop; i++) {
			sim_sleep_ms((uint64_t) g->period_ms);
			if (g->any_p2v && g->p2v >= g->sent[s])
				break;
		}
	}
}

static void
good_rq(void *a)
{
	Good  *g = (Good *) a;
	World *w = g->w;
	while (!g->stop) {
		uint32_t s = g->serial++;
		nng_msg *m = tag_msg(good_len(w), (uint16_t) g->who, 0, s);
		g->sent[s] = sim_now_ns();
		if (nng_sendmsg(g->s, m, 0) != 0) {
			nng_msg_free(m);
			sim_sleep_ms((uint64_t) g->period_ms);
			continue;
		}
		uint64_t until = sim_now_ns() + RQ_WINDOW_MS * MS;
		while (!g->stop && sim_now_ns() < until) {
			nng_msg *r  = NULL;
			int      rv = nng_recvmsg(g->s, &r, 0);
			if (w->p->i("dbg", 0))
				sim_event("%s rq: serial %u recv rv %d len %zu", g->nm, s, rv, rv == 0 ? nng_msg_len(r) : 0);
			if (rv == 0) {
				Tag t = tag_parse((const uint8_t *) nng_msg_body(r), nng_msg_len(r));
				nng_msg_free(r);
				if (t.ok && t.origin == O_V && t.stream == 1 && t.serial == s) {
					if (!g->any_rt || g->sent[s] > g->rt) {
						g->rt     = g->sent[s];
						g->any_rt = true;
					}
					break;
				}
				sim_probe("c11_good_peer_got_foreign");
			} else if (rv == NNG_ESTATE) {
				break;
			} else if (rv != NNG_ETIMEDOUT) {
				sim_sleep_ms(1);
			}
		}
		sim_sleep_ms((uint64_t) W(1, g->period_ms));
	}
}

static void
good_init(World *w, Good *g, int who, const char *nm)
{
	g->w    = w;
	g->who  = who;
	g->nm   = nm;
	g->open = false;
	g->stop = 0;
	g->v2p = g->p2v = g->rt = 0;
	g->any_v2p = g->any_p2v = g->any_rt = false;
	g->dropped   = 0;
	g->added     = 0;
	g->serial    = 0;
	g->period_ms = w->period_ms;
	g->gl_made   = false;
	g->redials   = 0;
}

static void
good_open(World *w, Good *g)
{
	int pt = PI[w->vt].peer;
	MUST(PI[pt].open(&g->s));
	g->open = true;
	// (a receive that times out on a REQ/SURVEYOR socket abandons the request: those wait a window)
	MUST(nng_socket_set_ms(g->s, NNG_OPT_RECVTIMEO, pt == V_REQ || pt == V_SURV ? (int) RQ_WINDOW_MS : POLL_MS));
	MUST(nng_socket_set_ms(g->s, NNG_OPT_SENDTIMEO, SEND_MS));
	MUST(nng_socket_set_ms(g->s, NNG_OPT_RECONNMINT, 10));
	MUST(nng_socket_set_ms(g->s, NNG_OPT_RECONNMAXT, 40));
	if (pt == V_SUB)
		MUST(nng_sub0_socket_subscribe(g->s, "", 0));
	if (pt == V_REQ)
		MUST(nng_socket_set_ms(g->s, NNG_OPT_REQ_RESENDTIME, RESEND_MS));
	if (pt == V_SURV)
		MUST(nng_socket_set_ms(g->s, NNG_OPT_SURVEYOR_SURVEYTIME, (nng_duration) RQ_WINDOW_MS));
	MUST(nng_pipe_notify(g->s, NNG_PIPE_EV_REM_POST, pipe_cb, g));
	MUST(nng_pipe_notify(g->s, NNG_PIPE_EV_ADD_POST, pipe_cb, g));
}

static void
good_spawn(World *w, Good *g)
{
	int pt = PI[w->vt].peer;
	if (pt == V_REQ || pt == V_SURV) {
		g->tids.push_back(sim_spawn("good_rq", good_rq, g, 0));
		return;
	}
	bool rx = v_transmits(w->vt) || v_requests(w->vt);
	bool tx = v_receives(w->vt) && !v_replies(w->vt);
	if (rx)
		g->tids.push_back(sim_spawn("good_rx", good_rx, g, 0));
	if (tx)
		g->tids.push_back(sim_spawn("good_tx", good_tx, g, 0));
}

static void
good_stop(Good *g)
{
	g->stop = 1;
	for (int t : g->tids)
		sim_join(t);
	g->tids.clear();
}

static void
victim_spawn(World *w)
{
	if (v_requests(w->vt)) {
		w->vtids.push_back(sim_spawn("victim_rq", victim_rq, w, 0));
		return;
	}
	if (v_receives(w->vt))
		w->vtids.push_back(sim_spawn("victim_rx", victim_rx, w, 0));
	if (v_transmits(w->vt))
		w->vtids.push_back(sim_spawn("victim_tx", victim_tx, w, 0));
}

// has this link completed, in every direction the protocol pair has, a transfer that was
// begun at or after t0?
static bool
link_ok(World *w, Good *g, uint64_t t0)
{
	switch (w->vt) {
	case V_SUB:
	case V_PULL:
		return g->any_p2v && g->p2v >= t0;
	case V_PUB:
	case V_PUSH:
		return g->any_v2p && g->v2p >= t0;
	case V_PAIR0:
	case V_PAIR1:
	case V_BUS:
		return g->any_p2v && g->p2v >= t0 && g->any_v2p && g->v2p >= t0;
	default:
		return g->any_rt && g->rt >= t0;
	}
}

static void good_connect(World *w, Good *g, bool blocking);

static std::string
link_state(World *w, Good *g, uint64_t t0)
{
	char b[200];
	snprintf(b, sizeof(b), "[%s: peer->victim %s, victim->peer %s, round trip %s; victim sent %u, peer sent %u, peer dropped %d]",
	    g->nm, g->any_p2v ? (g->p2v >= t0 ? "fresh" : "stale") : "never", g->any_v2p ? (g->v2p >= t0 ? "fresh" : "stale") : "never",
	    g->any_rt ? (g->rt >= t0 ? "fresh" : "stale") : "never", w->vserial, g->serial, g->dropped);
	return b;
}

// returns false on timeout
static bool
wait_link(World *w, Good *g, uint64_t t0, uint64_t bound_ns, uint64_t *took)
{
	uint64_t s0 = sim_stall_total_ns();
	for (;;) {
		uint64_t el = sim_now_ns() - t0;
		uint64_t st = sim_stall_total_ns() - s0;
		el          = el > st ? el - st : 0;
		if (link_ok(w, g, t0)) {
			if (took)
				*took = el;
			return true;
		}
		if (el > bound_ns) {
			if (took)
				*took = el;
			return false;
		}
		if (w->tr == X_SFD && g->who == O_LATE && g->dropped > g->redials) {
			// socket:// has no dialer: a PAIR victim whose only slot was still taken turns the
			// newcomer away, so the harness plays the redialing dialer
			g->redials = g->dropped;
			sim_sleep_ms(10);
			good_connect(w, g, false);
			sim_probe("c11_sfd_redial");
		}
		sim_sleep_ms(3);
	}
}

// ------------------------------------------------------------------ hostile sessions
enum { END_FIN = 0, END_RST, END_LINGER_FIN, END_LINGER_RST, END_WAIT_EOF, END_HALF_CLOSE };

struct PlanItem {
	size_t end_off;
	int    cls;
	Bytes  body;
};

struct Sess {
	World *w;
	int    id;
	int    fd;
	Bytes  script;
	std::vector<size_t> cuts;
	int      end_action;
	uint64_t linger_ms;
	uint64_t start_delay_us;
	bool     drain; // read what the victim sends while we write
	int      react; // number of victim frames to answer
	// results
	Bytes    sent; // bytes handed to the kernel
	bool     write_failed;
	bool     eof_seen;
	bool     finished;
	ConnModel model;
	std::vector<std::string> kinds; // per generated message: what it was meant to be
	Bytes    rxbuf;                // bytes read from the victim (reactive mode)
	volatile int done;
	int      tid;
	long     cut_r;                // truncation point as a fraction of 2^20, -1 = none
	std::vector<long> cuts_r;      // write boundaries, same unit
	// ws / udp: the model is built while generating (plan), offsets are script offsets
	std::vector<PlanItem> plan;
	size_t   plan_close_off;
	int      hs_class;
	size_t   hs_len;
	bool     wait_101;
	int      srv_kind;
	int      ws_state;
	bool     rx_http_done;
	// udp
	std::vector<Bytes> dgs;
	size_t   dg_sent;
	bool     udp_final_disc;
	int      udp_got_disc, udp_got_open;
	std::vector<Bytes> udp_rx_data;
	Sess() : fd(-1), end_action(0), linger_ms(0), start_delay_us(0), drain(true), react(0),
	         write_failed(false), eof_seen(false), finished(false), done(0), tid(-1), cut_r(-1),
	         plan_close_off(0), hs_class(0), hs_len(0), wait_101(false), srv_kind(0), ws_state(0),
	         rx_http_done(false), dg_sent(0), udp_final_disc(false), udp_got_disc(0), udp_got_open(0) {}
};

static Bytes
marker(int conn, int idx, int fill)
{
	Bytes b;
	b.push_back('H');
	b.push_back('x');
	put_be16(b, (uint16_t) conn);
	put_be16(b, (uint16_t) idx);
	for (int i = 0; i < fill; i++)
		b.push_back((uint8_t) ('a' + (i % 26)));
	return b;
}

// which generated message does this body belong to?  (only used to word a violation)
static std::string
describe_body(World *w, const Bytes &b)
{
	for (size_t i = 0; i + 6 <= b.size(); i++) {
		if (b[i] == 'H' && b[i + 1] == 'x') {
			size_t c = ((size_t) b[i + 2] << 8) | b[i + 3];
			size_t k = ((size_t) b[i + 4] << 8) | b[i + 5];
			if (c < w->sess.size() && k < w->sess[c]->kinds.size()) {
				char t[160];
				snprintf(t, sizeof(t), "hostile connection %zu message %zu, generated as '%s'", c, k,
				    w->sess[c]->kinds[k].c_str());
				return t;
			}
		}
	}
	return "no generated message recognisable in it";
}

// Build one SP message (protocol header + body) for the victim's protocol.
static Bytes
gen_payload(World *w, Sess *s, int fillmax)
{
	int   idx = (int) s->kinds.size();
	Bytes body = marker(s->id, idx, (int) W(0, fillmax));
	Bytes pl;
	const char *kind = "plain";
	long  k = W(0, 11);
	switch (w->hm) {
	case HM_NONE:
	case HM_NORECV:
		if (k == 11) {
			body.clear();
			kind = "empty";
		}
		break;
	case HM_HOP:
		if (k <= 6) {
			put_be32(pl, (uint32_t) W(0, w->ttl));
			kind = "hop ok";
		} else if (k == 7) {
			put_be32(pl, (uint32_t) W(w->ttl + 1, 255));
			kind = "hop over limit";
		} else if (k == 8) {
			put_be32(pl, (uint32_t) W(0, 3) | ((uint32_t) W(1, 0xffffff) << 8));
			kind = "hop word with reserved bits";
		} else if (k == 9) {
			body.resize((size_t) W(0, 3));
			kind = "shorter than the hop word";
		} else if (k == 10) {
			put_be32(pl, 1);
			body.clear();
			kind = "hop word only";
		} else {
			put_be32(pl, 0xffffffffu);
			kind = "hop word all ones";
		}
		break;
	case HM_BT_TTL:
	case HM_BT: {
		int words;
		if (k <= 5) {
			words = (int) W(0, w->hm == HM_BT ? 3 : std::max(0, w->ttl - 1));
			kind  = "backtrace ok";
		} else if (k == 6) {
			words = w->ttl + (int) W(0, 3); // words + terminator > ttl
			kind  = "backtrace over hop limit";
		} else if (k == 7) {
			// never terminated: every word has the high bit clear, body included
			words = (int) W(0, 20);
			if (W(0, 1)) {
				// ... or the end bit shows up only in a tail of 1..3 bytes
				words = (int) W(1, std::max(1, std::min(3, w->ttl - 1)));
				for (int i = 0; i < words; i++)
					put_be32(pl, (uint32_t) W(0, 0x7fffffff));
				size_t tail = (size_t) W(1, 3);
				for (size_t i = 0; i < tail; i++)
					pl.push_back((uint8_t) (0x80 | W(0, 0x7f)));
				s->kinds.push_back("backtrace ends in a partial word");
				return pl;
			}
			for (int i = 0; i < words; i++)
				put_be32(pl, (uint32_t) W(0, 0x7fffffff));
			for (auto &c : body)
				c &= 0x7f;
			append(pl, body);
			s->kinds.push_back("backtrace never terminated");
			return pl;
		} else if (k == 8) {
			pl.resize((size_t) W(0, 3), 0x80);
			s->kinds.push_back("shorter than one backtrace word");
			return pl;
		} else if (k == 9) {
			words = (int) W(16, 300);
			kind  = "very long backtrace";
		} else if (k == 10) {
			words = 0;
			body.clear();
			kind = "terminator only";
		} else {
			// terminated, but the total length is not a multiple of 4 before the end
			words = (int) W(0, 2);
			kind  = "backtrace ok, odd body";
			body.resize(body.size() | 1);
		}
		for (int i = 0; i < words; i++)
			put_be32(pl, (uint32_t) W(0, 0x7fffffff));
		put_be32(pl, 0x80000000u | (uint32_t) W(0, 0x7fffffff));
		break;
	}
	case HM_ID:
		if (k <= 6) {
			put_be32(pl, 0x80000000u | (uint32_t) W(0, 0x7fffffff));
			kind = "reply with a guessed id";
		} else if (k <= 8) {
			put_be32(pl, (uint32_t) W(0, 0x7fffffff));
			kind = "reply id without the high bit";
		} else if (k == 9) {
			pl.resize((size_t) W(0, 3), 0x80);
			s->kinds.push_back("shorter than the id word");
			return pl;
		} else {
			put_be32(pl, 0x80000000u | (uint32_t) W(0, 3));
			kind = "reply with a small id";
		}
		break;
	}
	append(pl, body);
	s->kinds.push_back(kind);
	return pl;
}

static uint64_t
pick_oversize(World *w)
{
	static const uint64_t big[] = { 1ull << 31, (1ull << 32) - 1, 1ull << 32, 1ull << 40, 1ull << 56,
		0x0fffffffffffffffull, 0x1000000000000000ull, 1ull << 63, 0xffffffffffffffffull,
		0x8000000000000010ull, 100ull << 20, 1ull << 30, (1ull << 30) + 1 };
	long k = W(0, 9);
	if (w->rcvmax > 0 && w->rcvmax < (1u << 20)) {
		if (k <= 2)
			return w->rcvmax + 1;
		if (k <= 4)
			return w->rcvmax + (uint64_t) W(2, 200);
		if (k == 5)
			return w->rcvmax * 2;
	}
	return big[W(0, (long) (sizeof(big) / sizeof(big[0])) - 1)];
}

// --- SP over tcp / ipc / socket-fd
static void
sp_frame(Bytes &out, int tr, uint64_t declared, const Bytes &pl, int typebyte = 1)
{
	if (tr == X_IPC)
		out.push_back((uint8_t) typebyte);
	put_be64(out, declared);
	append(out, pl);
}

static void
sp_handshake(Bytes &out, uint16_t proto)
{
	static const uint8_t h[4] = { 0, 'S', 'P', 0 };
	out.insert(out.end(), h, h + 4);
	put_be16(out, proto);
	put_be16(out, 0);
}

static void
gen_sp_script(World *w, Sess *s)
{
	Bytes &b   = s->script;
	long   hk  = W(0, 15);
	uint16_t me = PI[PI[w->vt].peer].id;
	if (hk <= 9) {
		sp_handshake(b, me);
	} else if (hk == 10) {
		sp_handshake(b, me);
		b[(size_t) W(0, 3)] ^= (uint8_t) W(1, 255);
		sim_event("sess %d: bad magic", s->id);
	} else if (hk == 11) {
		static const uint16_t ids[] = { 0x10, 0x11, 0x20, 0x21, 0x30, 0x31, 0x50, 0x51, 0x62, 0x63, 0x70, 0, 0xffff, 0x3100 };
		uint16_t o = ids[W(0, 13)];
		if (o == me)
			o ^= 0x100;
		sp_handshake(b, o);
		sim_event("sess %d: wrong protocol id %#x", s->id, o);
	} else if (hk == 12) {
		sp_handshake(b, me);
		b[(size_t) W(6, 7)] = (uint8_t) W(1, 255);
		sim_event("sess %d: reserved handshake bytes set", s->id);
	} else if (hk == 13) {
		append(b, "GET / HTTP/1.1\r\nHost: x\r\n\r\n");
		sim_event("sess %d: http request instead of handshake", s->id);
	} else if (hk == 14) {
		int n = (int) W(0, 24);
		for (int i = 0; i < n; i++)
			b.push_back((uint8_t) W(0, 255));
		sim_event("sess %d: %d garbage bytes instead of handshake", s->id, n);
	} else {
		sp_handshake(b, me);
		b.resize((size_t) W(0, 7));
		sim_event("sess %d: handshake truncated to %zu", s->id, b.size());
	}
	int nfr = (int) W(0, 6);
	for (int i = 0; i < nfr; i++) {
		long fk = W(0, 19);
		if (fk <= 9) {
			Bytes pl = gen_payload(w, s, 40);
			sp_frame(b, w->tr, pl.size(), pl);
		} else if (fk == 10) {
			// a message made as large as RECVMAXSZ allows, and one byte more
			size_t lim = w->rcvmax > 0 && w->rcvmax <= 4096 ? w->rcvmax : 300;
			Bytes  pl  = gen_payload(w, s, 0);
			size_t want = lim + (size_t) W(0, 1);
			if (pl.size() < want)
				pl.resize(want, 'z');
			s->kinds.back() += pl.size() > lim ? " padded to RECVMAXSZ+1" : " padded to RECVMAXSZ";
			sp_frame(b, w->tr, pl.size(), pl);
		} else if (fk <= 13) {
			Bytes    pl  = gen_payload(w, s, 20);
			uint64_t len = pick_oversize(w);
			s->kinds.back() += " with oversize length field";
			if (W(0, 1))
				pl.clear();
			sp_frame(b, w->tr, len, pl);
			sim_event("sess %d: frame %d declares length %#llx", s->id, i, (unsigned long long) len);
		} else if (fk == 14) {
			Bytes pl = gen_payload(w, s, 20);
			s->kinds.back() += " declared longer than sent";
			sp_frame(b, w->tr, pl.size() + (uint64_t) W(1, 64), pl);
		} else if (fk == 15) {
			Bytes pl = gen_payload(w, s, 20);
			s->kinds.back() += " declared shorter than sent";
			sp_frame(b, w->tr, (uint64_t) W(0, (long) pl.size()), pl);
		} else if (fk == 16) {
			Bytes pl;
			s->kinds.push_back("zero length frame");
			sp_frame(b, w->tr, 0, pl);
		} else if (fk == 17 && w->tr == X_IPC) {
			Bytes pl = gen_payload(w, s, 20);
			s->kinds.back() += " with bad ipc type byte";
			sp_frame(b, w->tr, pl.size(), pl, (int) W(0, 1) ? 0 : (int) W(2, 255));
		} else if (fk == 18) {
			int n = (int) W(1, 40);
			for (int j = 0; j < n; j++)
				b.push_back((uint8_t) W(0, 255));
			sim_event("sess %d: %d garbage bytes", s->id, n);
		} else {
			Bytes pl = gen_payload(w, s, 2000);
			sp_frame(b, w->tr, pl.size(), pl);
		}
	}
}

// strict reference decoder of an SP stream (tcp, ipc, socket-fd framing)
static void
sp_decode(World *w, const Bytes &b, ConnModel *cm)
{
	uint16_t want = PI[PI[w->vt].peer].id;
	if (b.size() < 8)
		return;
	if (b[0] != 0 || b[1] != 'S' || b[2] != 'P' || b[3] != 0 || b[6] != 0 || b[7] != 0)
		return;
	if ((((uint16_t) b[4] << 8) | b[5]) != want)
		return;
	cm->handshake_ok = true;
	size_t o  = 8;
	size_t hl = w->tr == X_IPC ? 9 : 8;
	for (;;) {
		if (b.size() - o < hl)
			return;
		if (w->tr == X_IPC && b[o] != 1)
			return;
		uint64_t len = be64(&b[o + hl - 8]);
		if (len > 0x0fffffffffffffffull)
			return; // not a valid length: nothing further can be framed
		if (w->rcvmax > 0 && len > w->rcvmax) {
			cm->must_close     = true;
			cm->must_close_off = o + hl;
			return;
		}
		if (b.size() - o - hl < len)
			return; // incomplete message
		Expect e;
		if (model_payload(w, &b[o + hl], (size_t) len, &e))
			cm->exp.push_back(e);
		o += hl + (size_t) len;
	}
}

static Bytes craft_reply(World *w, Sess *s, const Bytes &req, uint64_t *declared);
static void  sess_drain(Sess *s, uint64_t tmo_ns);
static bool  sess_write(Sess *s, const uint8_t *p, size_t n);

// ------------------------------------------------------------------ WebSocket
// sha1 + base64 (Sec-WebSocket-Accept) for the hostile server role
static uint32_t
rol32(uint32_t x, int n)
{
	return (x << n) | (x >> (32 - n));
}
static void
sha1(const uint8_t *msg, size_t len, uint8_t out[20])
{
	uint32_t h0 = 0x67452301, h1 = 0xEFCDAB89, h2 = 0x98BADCFE, h3 = 0x10325476, h4 = 0xC3D2E1F0;
	Bytes    m(msg, msg + len);
	m.push_back(0x80);
	while (m.size() % 64 != 56)
		m.push_back(0);
	put_be64(m, (uint64_t) len * 8);
	for (size_t o = 0; o < m.size(); o += 64) {
		uint32_t w[80];
		for (int i = 0; i < 16; i++)
			w[i] = be32(&m[o + (size_t) i * 4]);
		for (int i = 16; i < 80; i++)
			w[i] = rol32(w[i - 3] ^ w[i - 8] ^ w[i - 14] ^ w[i - 16], 1);
		uint32_t a = h0, b = h1, c = h2, d = h3, e = h4;
		for (int i = 0; i < 80; i++) {
			uint32_t f, k;
			if (i < 20) {
				f = (b & c) | (~b & d);
				k = 0x5A827999;
			} else if (i < 40) {
				f = b ^ c ^ d;
				k = 0x6ED9EBA1;
			} else if (i < 60) {
				f = (b & c) | (b & d) | (c & d);
				k = 0x8F1BBCDC;
			} else {
				f = b ^ c ^ d;
				k = 0xCA62C1D6;
			}
			uint32_t t = rol32(a, 5) + f + e + k + w[i];
			e          = d;
			d          = c;
			c          = rol32(b, 30);
			b          = a;
			a          = t;
		}
		h0 += a;
		h1 += b;
		h2 += c;
		h3 += d;
		h4 += e;
	}
	uint32_t hs[5] = { h0, h1, h2, h3, h4 };
	for (int i = 0; i < 5; i++) {
		out[i * 4]     = (uint8_t) (hs[i] >> 24);
		out[i * 4 + 1] = (uint8_t) (hs[i] >> 16);
		out[i * 4 + 2] = (uint8_t) (hs[i] >> 8);
		out[i * 4 + 3] = (uint8_t) hs[i];
	}
}
static std::string
base64(const uint8_t *p, size_t n)
{
	static const char *T = "ABCDEFGHIJKLMNOPQRSTUVWXYZabcdefghijklmnopqrstuvwxyz0123456789+/";
	std::string        o;
	for (size_t i = 0; i < n; i += 3) {
		uint32_t v = (uint32_t) p[i] << 16;
		if (i + 1 < n)
			v |= (uint32_t) p[i + 1] << 8;
		if (i + 2 < n)
			v |= p[i + 2];
		o += T[(v >> 18) & 63];
		o += T[(v >> 12) & 63];
		o += i + 1 < n ? T[(v >> 6) & 63] : '=';
		o += i + 2 < n ? T[v & 63] : '=';
	}
	return o;
}
static std::string
ws_accept_for(const std::string &key)
{
	std::string k = key + "258EAFA5-E914-47DA-95CA-C5AB0DC85B11";
	uint8_t     d[20];
	sha1((const uint8_t *) k.data(), k.size(), d);
	return base64(d, 20);
}

enum { WS_CONT = 0, WS_TEXT = 1, WS_BIN = 2, WS_CLOSE = 8, WS_PING = 9, WS_PONG = 10 };
enum { ST_INTACT = 0, ST_UNKNOWN, ST_DEAD };
enum { HS_CANON = 0, HS_GRAY, HS_INVALID };

// one frame; b0 = FIN|RSV|opcode byte.  lenmode 0 minimal, 1 force the 16 bit form, 2 force the
// 64 bit form; declared (if not ~0) replaces the length value while n bytes are attached
static void
ws_put_frame(Bytes &out, int b0, bool masked, const uint8_t *pl, size_t n, int lenmode = 0,
    uint64_t declared = ~0ull)
{
	uint64_t len = declared != ~0ull ? declared : n;
	out.push_back((uint8_t) b0);
	int form = len < 126 ? 0 : len < 65536 ? 1 : 2;
	if (lenmode > form)
		form = lenmode;
	uint8_t mb = masked ? 0x80 : 0;
	if (form == 0) {
		out.push_back((uint8_t) (mb | len));
	} else if (form == 1) {
		out.push_back((uint8_t) (mb | 126));
		put_be16(out, (uint16_t) len);
	} else {
		out.push_back((uint8_t) (mb | 127));
		put_be64(out, len);
	}
	uint8_t key[4] = { 0, 0, 0, 0 };
	if (masked) {
		for (int i = 0; i < 4; i++) {
			key[i] = (uint8_t) W(0, 255);
			out.push_back(key[i]);
		}
	}
	for (size_t i = 0; i < n; i++)
		out.push_back((uint8_t) (pl[i] ^ key[i & 3]));
}

struct WsGen {
	World *w;
	Sess  *s;
	bool   client; // we are the client (victim listens): our frames are masked
	int    state;
};

static void
ws_plan_add(WsGen *g, const Bytes &payload)
{
	if (g->state == ST_DEAD)
		return;
	Expect e;
	if (!model_payload(g->w, payload.data(), payload.size(), &e))
		return;
	PlanItem it;
	it.end_off = g->s->script.size();
	it.cls     = g->state == ST_INTACT && g->s->hs_class == HS_CANON ? e.cls : CL_DONTCARE;
	it.body    = e.body;
	g->s->plan.push_back(it);
}

static void
ws_unknown(WsGen *g)
{
	if (g->state == ST_INTACT)
		g->state = ST_UNKNOWN;
}

// over-RECVMAXSZ seen at the current end of the script (just after a frame header)
static void
ws_oversize_here(WsGen *g, size_t hdr_end)
{
	if (g->state == ST_INTACT && g->s->hs_class == HS_CANON && g->s->plan_close_off == 0)
		g->s->plan_close_off = hdr_end;
	g->state = ST_DEAD;
}

static size_t
ws_hdr_len(size_t n, bool masked)
{
	return 2 + (n < 126 ? 0 : n < 65536 ? 2 : 8) + (masked ? 4 : 0);
}

// an intact (rule-abiding) message in nfrag fragments with optional control frames in between
static void
ws_emit_intact(WsGen *g, const Bytes &payload, int nfrag, bool controls)
{
	Bytes  &out = g->s->script;
	size_t  n   = payload.size(), off = 0, cum = 0;
	World  *w   = g->w;
	for (int i = 0; i < nfrag; i++) {
		size_t left = n - off;
		size_t take = i == nfrag - 1 ? left : (left > 0 ? (size_t) W(0, (long) left) : 0);
		int    b0   = (i == nfrag - 1 ? 0x80 : 0) | (i == 0 ? WS_BIN : WS_CONT);
		size_t h0   = out.size();
		ws_put_frame(out, b0, g->client, payload.data() + off, take);
		off += take;
		cum += take;
		if (g->state != ST_DEAD && w->rcvmax > 0 && cum > w->rcvmax)
			ws_oversize_here(g, h0 + ws_hdr_len(take, g->client));
		if (controls && i < nfrag - 1 && W(0, 1)) {
			Bytes pp = marker(g->s->id, 999, (int) W(0, 20));
			ws_put_frame(out, 0x80 | (W(0, 1) ? WS_PING : WS_PONG), g->client, pp.data(), pp.size());
		}
	}
	ws_plan_add(g, payload);
}

static void
ws_gen_message(WsGen *g)
{
	World *w   = g->w;
	Sess  *s   = g->s;
	Bytes &out = s->script;
	long   k   = W(0, 25);
	if (k <= 9) {
		Bytes pl = gen_payload(w, s, k == 9 ? 2000 : 40);
		int   nf = W(0, 3) == 0 ? (int) W(2, 4) : 1;
		ws_emit_intact(g, pl, nf, true);
	} else if (k == 10 || k == 11) {
		Bytes    pl  = gen_payload(w, s, 20);
		uint64_t len = pick_oversize(w);
		s->kinds.back() += " with oversize length field";
		if (len < pl.size())
			len = pl.size() + 1;
		size_t h0 = out.size();
		ws_put_frame(out, 0x80 | WS_BIN, g->client, pl.data(), W(0, 1) ? pl.size() : 0, 0, len);
		sim_event("sess %d: ws frame declares length %#llx", s->id, (unsigned long long) len);
		if (w->rcvmax > 0 && len > w->rcvmax)
			ws_oversize_here(g, h0 + ws_hdr_len((size_t) std::min<uint64_t>(len, 1u << 20), g->client));
		g->state = ST_DEAD; // incomplete frame swallows whatever follows
	} else if (k == 12) {
		size_t lim  = w->rcvmax > 0 && w->rcvmax <= 4096 ? w->rcvmax : 300;
		Bytes  pl   = gen_payload(w, s, 0);
		size_t want = lim + (size_t) W(0, 1);
		if (pl.size() < want)
			pl.resize(want, 'z');
		s->kinds.back() += pl.size() > lim ? " padded to RECVMAXSZ+1" : " padded to RECVMAXSZ";
		ws_emit_intact(g, pl, W(0, 1) ? 1 : (int) W(2, 3), false);
	} else if (k == 13) {
		Bytes pl = gen_payload(w, s, 20);
		s->kinds.back() += g->client ? " unmasked" : " masked by server";
		ws_unknown(g);
		ws_put_frame(out, 0x80 | WS_BIN, !g->client, pl.data(), pl.size());
		ws_plan_add(g, pl);
	} else if (k == 14) {
		Bytes pl = gen_payload(w, s, 20);
		s->kinds.back() += " with RSV bits";
		ws_unknown(g);
		ws_put_frame(out, 0x80 | ((int) W(1, 7) << 4) | WS_BIN, g->client, pl.data(), pl.size());
		ws_plan_add(g, pl);
	} else if (k == 15) {
		static const int ops[] = { 3, 4, 5, 6, 7, 11, 12, 13, 14, 15 };
		Bytes            pl    = gen_payload(w, s, 20);
		s->kinds.back() += " with reserved opcode";
		ws_unknown(g);
		ws_put_frame(out, 0x80 | ops[W(0, 9)], g->client, pl.data(), pl.size());
	} else if (k == 16) {
		Bytes pl = gen_payload(w, s, 20);
		s->kinds.back() += " as text frame";
		ws_unknown(g);
		ws_put_frame(out, 0x80 | WS_TEXT, g->client, pl.data(), pl.size());
		ws_plan_add(g, pl);
	} else if (k == 17) {
		Bytes pl = gen_payload(w, s, 20);
		s->kinds.back() += " as continuation without start";
		ws_unknown(g);
		ws_put_frame(out, 0x80 | WS_CONT, g->client, pl.data(), pl.size());
		ws_plan_add(g, pl);
	} else if (k == 18) {
		Bytes a = gen_payload(w, s, 20);
		s->kinds.back() += " unfinished fragment";
		Bytes b = gen_payload(w, s, 20);
		s->kinds.back() += " new message inside a fragmented one";
		ws_unknown(g);
		ws_put_frame(out, WS_BIN, g->client, a.data(), a.size());
		ws_put_frame(out, 0x80 | WS_BIN, g->client, b.data(), b.size());
		ws_plan_add(g, b);
	} else if (k == 19) {
		Bytes pp((size_t) W(126, 300), 'p');
		ws_unknown(g);
		if (W(0, 1))
			ws_put_frame(out, 0x80 | WS_PING, g->client, pp.data(), pp.size());
		else
			ws_put_frame(out, WS_PING, g->client, pp.data(), 10);
		sim_event("sess %d: oversize or fragmented ws control frame", s->id);
	} else if (k == 20) {
		Bytes pl = gen_payload(w, s, 20);
		s->kinds.back() += " with non-minimal length";
		ws_unknown(g);
		ws_put_frame(out, 0x80 | WS_BIN, g->client, pl.data(), pl.size(), pl.size() < 126 ? (int) W(1, 2) : 2);
		ws_plan_add(g, pl);
	} else if (k == 21) {
		Bytes cp;
		if (W(0, 2) != 0)
			put_be16(cp, (uint16_t) (W(0, 1) ? 1000 : W(0, 65535)));
		if (W(0, 3) == 0)
			cp.resize(1);
		ws_unknown(g);
		ws_put_frame(out, 0x80 | WS_CLOSE, g->client, cp.data(), cp.size());
		sim_event("sess %d: ws close frame", s->id);
	} else if (k == 22) {
		Bytes pp = marker(s->id, 999, (int) W(0, 100));
		ws_put_frame(out, 0x80 | (W(0, 1) ? WS_PING : WS_PONG), g->client, pp.data(), pp.size());
	} else if (k == 23) {
		Bytes pl = gen_payload(w, s, 20);
		s->kinds.back() += " declared longer than sent";
		ws_put_frame(out, 0x80 | WS_BIN, g->client, pl.data(), pl.size(), 0, pl.size() + (uint64_t) W(1, 64));
		g->state = ST_DEAD;
	} else if (k == 24) {
		Bytes pl = gen_payload(w, s, 30);
		ws_emit_intact(g, pl, (int) W(8, 30), true);
	} else {
		int n = (int) W(1, 40);
		ws_unknown(g);
		g->state = ST_DEAD; // garbage: no framing survives it
		for (int j = 0; j < n; j++)
			out.push_back((uint8_t) W(0, 255));
		sim_event("sess %d: %d garbage bytes in the ws stream", s->id, n);
	}
}

// very long header lines are affordable only when the network does not deliver byte by byte
static size_t
ws_long_len(World *w)
{
	long net = w->p->has("net") ? w->p->i("net", 0) : (w->p->drawn.count("net") ? w->p->drawn["net"] : 0);
	bool big = W(0, 1) == 0 && net != 1 && net != 3;
	return big ? (size_t) W(60000, 70000) : (size_t) W(1000, 9000);
}

static std::string
ws_proto_name(World *w, int vt)
{
	(void) w;
	return std::string(PI[vt].name) + ".sp.nanomsg.org";
}

// HTTP upgrade request of a hostile client
static void
ws_gen_request(World *w, Sess *s)
{
	Bytes      &b     = s->script;
	std::string path  = "/p1";
	std::string host  = "127.0.0.1:8001";
	std::string proto = ws_proto_name(w, w->vt); // the listener's own name
	std::string key   = "dGhlIHNhbXBsZSBub25jZQ==";
	auto canon = [&](Bytes &o) {
		append(o, ("GET " + path + " HTTP/1.1\r\nHost: " + host +
		              "\r\nUpgrade: websocket\r\nConnection: Upgrade\r\nSec-WebSocket-Key: " + key +
		              "\r\nSec-WebSocket-Version: 13\r\nSec-WebSocket-Protocol: " + proto + "\r\n\r\n")
		              .c_str());
	};
	long hk     = W(0, 27);
	s->hs_class = HS_CANON;
	const char *what = "canonical";
	if (hk <= 9) {
		canon(b);
	} else if (hk == 10) {
		append(b, ("GET " + path + " HTTP/1.1\r\nhost: " + host +
		              "\r\nsec-websocket-protocol: " + proto +
		              "\r\nX-Extra: 1\r\nCONNECTION: keep-alive, Upgrade\r\nupgrade: WebSocket\r\n"
		              "Sec-WebSocket-Version: 13\r\nSec-WebSocket-Key: " + key + "\r\n\r\n")
		              .c_str());
		s->hs_class = HS_GRAY;
		what        = "unusual but legal header spelling";
	} else if (hk == 11 || hk == 12) {
		append(b, ("GET /nowhere HTTP/1.1\r\nHost: " + host + "\r\n\r\n").c_str());
		if (hk == 12)
			canon(b);
		s->hs_class = hk == 12 ? HS_GRAY : HS_INVALID;
		what        = hk == 12 ? "404 request, then upgrade on the same connection" : "request for an unknown path";
	} else if (hk == 13) {
		std::string r = "POST " + path + " HTTP/1.1\r\nHost: " + host +
		    "\r\nUpgrade: websocket\r\nConnection: Upgrade\r\nSec-WebSocket-Key: " + key +
		    "\r\nSec-WebSocket-Version: 13\r\nSec-WebSocket-Protocol: " + proto + "\r\n\r\n";
		append(b, r.c_str());
		s->hs_class = HS_INVALID;
		what        = "POST instead of GET";
	} else if (hk == 14) {
		std::string r = "GET " + path + " HTTP/1.0\r\nHost: " + host +
		    "\r\nUpgrade: websocket\r\nConnection: Upgrade\r\nSec-WebSocket-Key: " + key +
		    "\r\nSec-WebSocket-Version: 13\r\nSec-WebSocket-Protocol: " + proto + "\r\n\r\n";
		append(b, r.c_str());
		// RFC 6455 wants HTTP/1.1 or later and nng's ws_handler means to refuse anything else, but
		// its http server resets the version before the handler looks: 1.0 upgrades are accepted
		s->hs_class = HS_GRAY;
		what        = "HTTP/1.0";
	} else if (hk == 15) {
		std::string r = "GET " + path + " HTTP/1.1\r\nHost: " + host +
		    "\r\nConnection: Upgrade\r\nSec-WebSocket-Key: " + key +
		    "\r\nSec-WebSocket-Version: 13\r\nSec-WebSocket-Protocol: " + proto + "\r\n\r\n";
		append(b, r.c_str());
		s->hs_class = HS_INVALID;
		what        = "no Upgrade header";
	} else if (hk == 16) {
		std::string r = "GET " + path + " HTTP/1.1\r\nHost: " + host +
		    "\r\nUpgrade: websocket\r\nConnection: Upgrade\r\nSec-WebSocket-Key: " + key +
		    "\r\nSec-WebSocket-Version: 8\r\nSec-WebSocket-Protocol: " + proto + "\r\n\r\n";
		append(b, r.c_str());
		s->hs_class = HS_INVALID;
		what        = "websocket version 8";
	} else if (hk == 17) {
		std::string r = "GET " + path + " HTTP/1.1\r\nHost: " + host +
		    "\r\nUpgrade: websocket\r\nConnection: Upgrade"
		    "\r\nSec-WebSocket-Version: 13\r\nSec-WebSocket-Protocol: " + proto + "\r\n\r\n";
		append(b, r.c_str());
		s->hs_class = HS_INVALID;
		what        = "no key";
	} else if (hk == 18) {
		std::string r = "GET " + path + " HTTP/1.1\r\nHost: " + host +
		    "\r\nUpgrade: websocket\r\nConnection: Upgrade\r\nSec-WebSocket-Key: " +
		    std::string((size_t) W(0, 60), 'A') +
		    "\r\nSec-WebSocket-Version: 13\r\nSec-WebSocket-Protocol: " + proto + "\r\n\r\n";
		append(b, r.c_str());
		s->hs_class = HS_GRAY;
		what        = "key of unusual length";
	} else if (hk == 19 || hk == 20) {
		static const int others[] = { V_PAIR0, V_PUB, V_REQ, V_REP, V_BUS, V_SURV };
		int              o        = others[W(0, 5)];
		if (o == w->vt)
			o = o == V_BUS ? V_PAIR0 : V_BUS;
		std::string r = "GET " + path + " HTTP/1.1\r\nHost: " + host +
		    "\r\nUpgrade: websocket\r\nConnection: Upgrade\r\nSec-WebSocket-Key: " + key +
		    "\r\nSec-WebSocket-Version: 13\r\n" +
		    (hk == 19 ? "Sec-WebSocket-Protocol: " + ws_proto_name(w, o) + "\r\n" : std::string()) + "\r\n";
		append(b, r.c_str());
		s->hs_class = HS_INVALID;
		what        = hk == 19 ? "wrong SP protocol name" : "no sub-protocol";
	} else if (hk == 21) {
		size_t      n = ws_long_len(w);
		std::string r = "GET " + path + " HTTP/1.1\r\nHost: " + host + "\r\nX-Long: " + std::string(n, 'x') +
		    "\r\nUpgrade: websocket\r\nConnection: Upgrade\r\nSec-WebSocket-Key: " + key +
		    "\r\nSec-WebSocket-Version: 13\r\nSec-WebSocket-Protocol: " + proto + "\r\n\r\n";
		append(b, r.c_str());
		s->hs_class = HS_GRAY;
		what        = "very long header line";
	} else if (hk == 22) {
		std::string r = "GET " + path + " HTTP/1.1\r\nHost: " + host + "\r\n";
		int         n = (int) W(50, 400);
		for (int i = 0; i < n; i++)
			r += "X-H" + std::to_string(i) + ": v\r\n";
		r += "Upgrade: websocket\r\nConnection: Upgrade\r\nSec-WebSocket-Key: " + key +
		    "\r\nSec-WebSocket-Version: 13\r\nSec-WebSocket-Protocol: " + proto + "\r\n\r\n";
		append(b, r.c_str());
		s->hs_class = HS_GRAY;
		what        = "hundreds of headers";
	} else if (hk == 23) {
		int n = (int) W(1, 200);
		for (int i = 0; i < n; i++)
			b.push_back((uint8_t) W(0, 255));
		s->hs_class = HS_INVALID;
		what        = "binary garbage instead of a request";
	} else if (hk == 24) {
		std::string r = "GET " + path + " HTTP/1.1\r\nHost: " + host +
		    "\r\nContent-Length: " + (W(0, 1) ? "10" : "99999999999999999999") +
		    "\r\nUpgrade: websocket\r\nConnection: Upgrade\r\nSec-WebSocket-Key: " + key +
		    "\r\nSec-WebSocket-Version: 13\r\nSec-WebSocket-Protocol: " + proto + "\r\n\r\n0123456789";
		append(b, r.c_str());
		s->hs_class = HS_GRAY;
		what        = "upgrade request with a body";
	} else if (hk == 25) {
		std::string r = "GET " + path + " HTTP/1.1\nHost: " + host +
		    "\nUpgrade: websocket\nConnection: Upgrade\nSec-WebSocket-Key: " + key +
		    "\nSec-WebSocket-Version: 13\nSec-WebSocket-Protocol: " + proto + "\n\n";
		append(b, r.c_str());
		s->hs_class = HS_GRAY;
		what        = "bare LF line ends";
	} else if (hk == 26) {
		sp_handshake(b, PI[PI[w->vt].peer].id);
		s->hs_class = HS_INVALID;
		what        = "SP/TCP greeting on a websocket port";
	} else {
		std::string r = "GET " + path + " HTTP/1.1\r\nHost: " + host +
		    "\r\nTransfer-Encoding: chunked\r\nUpgrade: websocket\r\nConnection: Upgrade\r\nSec-WebSocket-Key: " +
		    key + "\r\nSec-WebSocket-Version: 13\r\nSec-WebSocket-Protocol: " + proto +
		    "\r\n\r\nffffffffffffffff0\r\nabc";
		append(b, r.c_str());
		s->hs_class = HS_GRAY;
		what        = "chunked upgrade request";
	}
	s->hs_len = b.size();
	if (hk > 9)
		sim_event("sess %d: ws handshake: %s", s->id, what);
}

// HTTP response of a hostile server (built once the victim's request, hence its key, is known)
static Bytes
ws_make_response(World *w, Sess *s, const std::string &key)
{
	Bytes       b;
	std::string proto = ws_proto_name(w, PI[w->vt].peer); // what the dialer asked for
	std::string acc   = ws_accept_for(key);
	long        hk    = s->srv_kind;
	const char *what  = "canonical";
	s->hs_class       = HS_CANON;
	auto resp = [&](const std::string &status, const std::string &a, const std::string &up,
	                const std::string &conn, const std::string &pr) {
		std::string r = "HTTP/1.1 " + status + "\r\n";
		if (!up.empty())
			r += "Upgrade: " + up + "\r\n";
		if (!conn.empty())
			r += "Connection: " + conn + "\r\n";
		if (!a.empty())
			r += "Sec-WebSocket-Accept: " + a + "\r\n";
		if (!pr.empty())
			r += "Sec-WebSocket-Protocol: " + pr + "\r\n";
		r += "\r\n";
		append(b, r.c_str());
	};
	if (hk <= 9) {
		resp("101 Switching Protocols", acc, "websocket", "Upgrade", proto);
	} else if (hk == 10) {
		std::string bad = acc;
		bad[(size_t) W(0, 26)] ^= 1;
		resp("101 Switching Protocols", bad, "websocket", "Upgrade", proto);
		s->hs_class = HS_INVALID;
		what        = "wrong accept hash";
	} else if (hk == 11) {
		resp("101 Switching Protocols", "", "websocket", "Upgrade", proto);
		s->hs_class = HS_INVALID;
		what        = "no accept hash";
	} else if (hk == 12) {
		static const char *st[] = { "200 OK", "404 Not Found", "500 Oops", "302 Found", "100 Continue", "999 x" };
		resp(st[W(0, 5)], acc, "websocket", "Upgrade", proto);
		s->hs_class = HS_INVALID;
		what        = "status other than 101";
	} else if (hk == 13) {
		resp("101 Switching Protocols", acc, "", "Upgrade", proto);
		s->hs_class = HS_INVALID;
		what        = "no Upgrade header";
	} else if (hk == 14) {
		static const int others[] = { V_PAIR0, V_PUB, V_REQ, V_REP, V_BUS, V_SURV };
		int              o        = others[W(0, 5)];
		if (o == PI[w->vt].peer)
			o = o == V_BUS ? V_PAIR0 : V_BUS;
		resp("101 Switching Protocols", acc, "websocket", "Upgrade", W(0, 1) ? ws_proto_name(w, o) : "");
		s->hs_class = HS_INVALID;
		what        = "wrong or missing sub-protocol";
	} else if (hk == 15) {
		std::string r = "HTTP/1.1 101 Switching Protocols\r\nX-Long: " +
		    std::string(ws_long_len(w), 'x') +
		    "\r\nUpgrade: websocket\r\nConnection: Upgrade\r\nSec-WebSocket-Accept: " + acc +
		    "\r\nSec-WebSocket-Protocol: " + proto + "\r\n\r\n";
		append(b, r.c_str());
		s->hs_class = HS_GRAY;
		what        = "very long header line";
	} else if (hk == 16) {
		int n = (int) W(1, 200);
		for (int i = 0; i < n; i++)
			b.push_back((uint8_t) W(0, 255));
		s->hs_class = HS_INVALID;
		what        = "binary garbage instead of a response";
	} else if (hk == 17) {
		std::string r = "HTTP/1.1 101 Switching Protocols\nupgrade: websocket\nconnection: upgrade\n"
		                "sec-websocket-accept: " + acc + "\nsec-websocket-protocol: " + proto + "\n\n";
		append(b, r.c_str());
		s->hs_class = HS_GRAY;
		what        = "bare LF, lower case";
	} else if (hk == 18) {
		resp("101 Switching Protocols", acc, "websocket", "Upgrade", proto);
		b.insert(b.begin(), 'X'); // garbage before the status line
		s->hs_class = HS_GRAY;
		what        = "junk before the status line";
	} else {
		std::string r = "HTTP/1.1 101 Switching Protocols\r\nContent-Length: 5\r\nUpgrade: websocket\r\n"
		                "Connection: Upgrade\r\nSec-WebSocket-Accept: " + acc +
		    "\r\nSec-WebSocket-Protocol: " + proto + "\r\n\r\n";
		append(b, r.c_str());
		s->hs_class = HS_GRAY;
		what        = "101 with a content length";
	}
	if (hk > 9)
		sim_event("sess %d: ws server response: %s", s->id, what);
	return b;
}

static void
gen_ws_script(World *w, Sess *s)
{
	WsGen g;
	g.w      = w;
	g.s      = s;
	g.client = !w->vdial;
	g.state  = ST_INTACT;
	if (g.client) {
		ws_gen_request(w, s);
	} else {
		s->srv_kind = (int) W(0, 19);
		s->hs_class = HS_CANON; // provisional; fixed when the response is built
		s->hs_len   = 0;
	}
	s->wait_101 = W(0, 1) != 0;
	int nm      = (int) W(0, 6);
	for (int i = 0; i < nm; i++)
		ws_gen_message(&g);
	s->ws_state = g.state;
}

// Reference decoder of the websocket part of a session (RFC 6455 framing, message mode, binary
// messages only).  Up to the first framing-rule violation it is strict and says exactly which
// messages a conforming receiver delivers.  What a receiver does after a violation is its own
// business (nng closes on most, tolerates e.g. fragmented control frames): from there on decoding
// continues leniently and everything found, plus everything the generator meant to send behind that
// point, is merely allowed (CL_DONTCARE) - never required, never forbidden.
static void
ws_decode(World *w, Sess *s)
{
	ConnModel   &cm = s->model;
	const Bytes &b  = s->sent;
	size_t       o  = s->hs_len;
	cm.handshake_ok = s->hs_class == HS_CANON && b.size() >= s->hs_len;
	if (s->hs_class == HS_INVALID || b.size() < s->hs_len)
		return;
	const bool   from_client = !w->vdial;
	const size_t NONE        = (size_t) -1;
	size_t       viol        = NONE;
	Bytes        msg;
	bool         inmsg = false;
	for (;;) {
		if (b.size() - o < 2)
			break;
		uint8_t  b0 = b[o], b1 = b[o + 1];
		int      op  = b0 & 0x0f;
		bool     fin = (b0 & 0x80) != 0, mk = (b1 & 0x80) != 0;
		uint64_t len = b1 & 0x7f;
		size_t   hl  = 2;
		bool     bad = (b0 & 0x70) != 0 || mk != from_client;
		if (len == 126) {
			if (b.size() - o < 4)
				break;
			len = ((uint64_t) b[o + 2] << 8) | b[o + 3];
			hl  = 4;
			bad = bad || len < 126;
		} else if (len == 127) {
			if (b.size() - o < 10)
				break;
			len = be64(&b[o + 2]);
			hl  = 10;
			bad = bad || len < 65536;
			if ((len >> 63) != 0) {
				if (viol == NONE)
					viol = o;
				break; // not a length at all
			}
		}
		size_t ko = o + hl;
		if (mk)
			hl += 4;
		if (b.size() - o < hl)
			break;
		bool ctl  = op >= 8;
		bool skip = false; // lenient reading: a frame of unknown type is passed over
		if (w->p->i("dbg", 0))
			sim_event("sess %d decode @%zu: b0=%02x b1=%02x len=%llu hl=%zu avail=%zu inmsg=%d", s->id, o, b0, b1,
			    (unsigned long long) len, hl, b.size() - o, (int) inmsg);
		if (ctl) {
			bad  = bad || op > WS_PONG || len > 125 || !fin;
			skip = op > WS_PONG;
		} else {
			bad  = bad || op > WS_BIN || op == WS_TEXT || (op == WS_CONT && !inmsg) || (op != WS_CONT && inmsg);
			skip = op > WS_BIN;
		}
		if (bad && viol == NONE)
			viol = o;
		if (!ctl && !skip && w->rcvmax > 0 && (op == WS_CONT && inmsg ? msg.size() : 0) + len > w->rcvmax) {
			// over RECVMAXSZ: never delivered, connection closed, nothing further
			if (s->hs_class == HS_CANON && viol == NONE) {
				cm.must_close     = true;
				cm.must_close_off = o + hl;
			}
			break;
		}
		if (b.size() - o - hl < len)
			break; // incomplete frame
		if (ctl) {
			if (op == WS_CLOSE) {
				if (viol == NONE)
					viol = o + hl + (size_t) len; // what follows a close frame is anybody's guess
				break;
			}
		} else if (!skip) {
			if (op != WS_CONT || !inmsg)
				msg.clear(); // (lenient: a new start drops an unfinished message)
			size_t at = msg.size();
			msg.insert(msg.end(), b.begin() + (long) (o + hl), b.begin() + (long) (o + hl + len));
			if (mk)
				for (size_t i = 0; i < (size_t) len; i++)
					msg[at + i] ^= b[ko + (i & 3)];
			inmsg = !fin;
			if (fin) {
				Expect e;
				if (model_payload(w, msg.data(), msg.size(), &e)) {
					if (s->hs_class != HS_CANON || viol != NONE)
						e.cls = CL_DONTCARE;
					cm.exp.push_back(e);
				}
				msg.clear();
			}
		}
		o += hl + (size_t) len;
	}
	if (viol != NONE) {
		sim_probe("c11_ws_rule_violation_sent");
		for (auto &it : s->plan) {
			if (it.end_off <= viol || it.end_off > b.size())
				continue;
			Expect e;
			e.cls  = CL_DONTCARE;
			e.body = it.body;
			cm.exp.push_back(e);
		}
	}
}

static size_t
find_hdr_end(const Bytes &b)
{
	for (size_t i = 0; i + 4 <= b.size(); i++)
		if (b[i] == '\r' && b[i + 1] == '\n' && b[i + 2] == '\r' && b[i + 3] == '\n')
			return i + 4;
	return 0;
}

// pull one complete data frame sent by the victim out of rxbuf (after the HTTP part)
static bool
ws_take_frame(Sess *s, Bytes *pl)
{
	Bytes &rb = s->rxbuf;
	if (!s->rx_http_done) {
		size_t e = find_hdr_end(rb);
		if (e == 0)
			return false;
		rb.erase(rb.begin(), rb.begin() + (long) e);
		s->rx_http_done = true;
	}
	for (;;) {
		if (rb.size() < 2)
			return false;
		int      op = rb[0] & 0x0f;
		bool     mk = (rb[1] & 0x80) != 0;
		uint64_t len = rb[1] & 0x7f;
		size_t   hl  = 2;
		if (len == 126) {
			if (rb.size() < 4)
				return false;
			len = ((uint64_t) rb[2] << 8) | rb[3];
			hl  = 4;
		} else if (len == 127) {
			if (rb.size() < 10)
				return false;
			len = be64(&rb[2]);
			hl  = 10;
		}
		if (len > 60000)
			return false;
		size_t ko = hl;
		if (mk)
			hl += 4;
		if (rb.size() < hl + len)
			return false;
		Bytes d(rb.begin() + (long) hl, rb.begin() + (long) (hl + len));
		if (mk)
			for (size_t i = 0; i < d.size(); i++)
				d[i] ^= rb[ko + (i & 3)];
		rb.erase(rb.begin(), rb.begin() + (long) (hl + len));
		if (op == WS_BIN) {
			*pl = d;
			return true;
		}
		// control / continuation frames of the victim are skipped
	}
}

static void
sess_react_ws(Sess *s)
{
	World *w = s->w;
	if (s->hs_class != HS_CANON || s->ws_state != ST_INTACT)
		return;
	WsGen g;
	g.w      = w;
	g.s      = s;
	g.client = !w->vdial;
	g.state  = ST_INTACT;
	int      left  = s->react;
	uint64_t until = sim_now_ns() + 600 * MS;
	while (left > 0 && sim_now_ns() < until && !s->eof_seen && !s->write_failed && g.state == ST_INTACT) {
		Bytes req;
		if (!ws_take_frame(s, &req)) {
			sess_drain(s, 40 * MS);
			continue;
		}
		uint64_t declared;
		Bytes    pl    = craft_reply(w, s, req, &declared);
		size_t   before = s->script.size();
		if (declared) {
			size_t h0 = s->script.size();
			ws_put_frame(s->script, 0x80 | WS_BIN, g.client, pl.data(), pl.size(), 0,
			    std::max<uint64_t>(declared, pl.size() + 1));
			if (w->rcvmax > 0 && declared > w->rcvmax)
				ws_oversize_here(&g, h0 + ws_hdr_len((size_t) std::min<uint64_t>(declared, 1u << 20), g.client));
			g.state = ST_DEAD;
		} else {
			ws_emit_intact(&g, pl, 1, false);
		}
		sim_event("sess %d: answers a %zu byte request with '%s'", s->id, req.size(), s->kinds.back().c_str());
		// the script grew: its tail is written now; plan offsets are script offsets, and the
		// script has been written completely up to here (no truncation in reactive sessions)
		sess_write(s, s->script.data() + before, s->script.size() - before);
		left--;
		sim_probe("c11_reactive_reply");
	}
}

// ---- session engine (stream transports)
static void
sess_drain(Sess *s, uint64_t tmo_ns)
{
	// read whatever the victim sent so far (non-blocking after the first wait)
	uint8_t buf[512];
	for (int i = 0; i < 64; i++) {
		errno  = 0;
		long r = simnet_read_blocking(s->fd, buf, sizeof(buf), tmo_ns);
		if (r == 0 || (r < 0 && errno != ETIMEDOUT)) {
			s->eof_seen = true;
			return;
		}
		if (r < 0)
			return;
		if (s->rxbuf.size() < 65536)
			s->rxbuf.insert(s->rxbuf.end(), buf, buf + r);
		tmo_ns = 1000; // only what is already there
	}
}

static bool
sess_write(Sess *s, const uint8_t *p, size_t n)
{
	if (s->write_failed || n == 0)
		return !s->write_failed;
	long r = simnet_write_full(s->fd, p, n, 400 * MS);
	if (r > 0)
		s->sent.insert(s->sent.end(), p, p + r);
	if (r != (long) n) {
		s->write_failed = true;
		sim_event("sess %d: write stopped after %zu bytes (errno %d)", s->id, s->sent.size(), errno);
		return false;
	}
	return true;
}

static void sess_react_sp(Sess *s);

// the connection is established (s->fd); play the script and the end game
static void
sess_play(Sess *s)
{
	World *w   = s->w;
	size_t off = 0;
	// truncation at any byte offset (not when we are going to answer requests afterwards)
	if (s->cut_r >= 0 && s->react == 0 && !s->script.empty()) {
		size_t cut = (size_t) (((uint64_t) (s->script.size() + 1) * (uint64_t) s->cut_r) >> 20);
		sim_event("sess %d: script of %zu bytes cut at %zu", s->id, s->script.size(), cut);
		s->script.resize(std::min(cut, s->script.size()));
	}
	for (long r : s->cuts_r)
		s->cuts.push_back((size_t) (((uint64_t) (s->script.size() + 1) * (uint64_t) r) >> 20));
	if (s->script.size() > 8000)
		simnet_set_seg(s->fd, 2, 700); // a 64 KB header byte-at-a-time would eat the step budget
	bool wait_hdr = w->tr == X_WS && !w->vdial && s->wait_101 && s->hs_len > 0 && s->hs_len < s->script.size();
	if (wait_hdr)
		s->cuts.push_back(s->hs_len);
	std::sort(s->cuts.begin(), s->cuts.end());
	for (size_t i = 0; i <= s->cuts.size(); i++) {
		size_t end = i < s->cuts.size() ? s->cuts[i] : s->script.size();
		end        = std::min(end, s->script.size());
		if (end > off) {
			if (!sess_write(s, s->script.data() + off, end - off))
				break;
			off = end;
		}
		if (wait_hdr && off == s->hs_len) {
			// a patient client: frames only after the server's answer to the upgrade request
			uint64_t until = sim_now_ns() + 1 * SEC;
			while (find_hdr_end(s->rxbuf) == 0 && !s->eof_seen && sim_now_ns() < until)
				sess_drain(s, 50 * MS);
			wait_hdr = false;
		}
		if (s->drain && !s->eof_seen)
			sess_drain(s, 1000);
		if (i < s->cuts.size())
			sim_sleep_ns((uint64_t) W(0, 3000) * 1000);
	}
	if (s->react > 0 && !s->write_failed) {
		if (w->tr == X_WS)
			sess_react_ws(s);
		else
			sess_react_sp(s);
	}
	// what did we really put on the wire, and what does the reference say about it?
	bool     expect_close = false;
	if (w->tr == X_WS)
		ws_decode(w, s);
	else
		sp_decode(w, s->sent, &s->model);
	expect_close = s->model.must_close;
	if (expect_close && W(0, 3) != 0)
		s->end_action = END_WAIT_EOF;
	if (w->tr == X_WS && !w->vdial) {
		size_t      e = 0;
		while (e < s->rxbuf.size() && e < 40 && s->rxbuf[e] >= 0x20 && s->rxbuf[e] < 0x7f)
			e++;
		std::string st((const char *) s->rxbuf.data(), e);
		sim_event("sess %d: server said '%s' (%zu bytes so far)", s->id, st.c_str(), s->rxbuf.size());
		if (st.find(" 101 ") != std::string::npos)
			sim_probe(s->hs_class == HS_CANON ? "c11_ws_upgraded" : s->hs_class == HS_GRAY ? "c11_ws_upgraded_gray" : "c11_ws_upgraded_INVALID");
	}
	sim_event("sess %d: wrote %zu of %zu bytes, %zu deliverable, must_close=%d, end action %d", s->id,
	    s->sent.size(), s->script.size(), s->model.exp.size(), (int) expect_close, s->end_action);
	uint64_t t0 = sim_now_ns(), s0 = sim_stall_total_ns();
	switch (s->end_action) {
	case END_FIN:
		close(s->fd);
		break;
	case END_RST:
		simnet_reset(s->fd);
		break;
	case END_HALF_CLOSE:
		shutdown(s->fd, SHUT_WR);
		// FALLTHROUGH
	case END_LINGER_FIN:
	case END_LINGER_RST: {
		uint64_t until = t0 + s->linger_ms * MS;
		while (sim_now_ns() < until && !s->eof_seen) {
			if (s->drain)
				sess_drain(s, std::min<uint64_t>(until - sim_now_ns() + 1, 50 * MS));
			else
				sim_sleep_ms(std::min<uint64_t>((until - sim_now_ns()) / MS + 1, 50));
		}
		if (s->eof_seen)
			sim_probe(s->model.handshake_ok ? "c11_victim_hung_up" : "c11_victim_hung_up_bad_handshake");
		else if (s->linger_ms >= 10000 && s->sent.size() < 8)
			sim_probe("c11_silent_peer_survived_10s");
		if (s->end_action == END_LINGER_RST)
			simnet_reset(s->fd);
		else
			close(s->fd);
		break;
	}
	case END_WAIT_EOF: {
		// "closes that connection": generous bound, injected stalls subtracted
		// (without an over-RECVMAXSZ length on the wire it is only an observation: wait briefly)
		const uint64_t bound = expect_close ? 5 * SEC : 400 * MS;
		for (;;) {
			sess_drain(s, 100 * MS);
			if (s->eof_seen)
				break;
			uint64_t el = sim_now_ns() - t0, st = sim_stall_total_ns() - s0;
			el = el > st ? el - st : 0;
			if (el > bound) {
				if (expect_close)
					VIOL("oversize_not_closed",
					    "hostile connection %d (%s victim %s%s, RECVMAXSZ %zu) sent a length field above "
					    "RECVMAXSZ at stream offset %zu after a correct handshake and intact frames; "
					    "the connection is still open %llu ms later (victim sent %zu bytes on it, last: %s)",
					    s->id, w->vdial ? "dialing" : "listening", PI[w->vt].name, w->raw ? "(raw)" : "",
					    w->rcvmax, s->model.must_close_off, (unsigned long long) (el / MS), s->rxbuf.size(),
					    h_hex(s->rxbuf.data() + (s->rxbuf.size() > 8 ? s->rxbuf.size() - 8 : 0),
					        std::min<size_t>(8, s->rxbuf.size()), 8).c_str());
				break;
			}
		}
		if (s->eof_seen && expect_close) {
			sim_probe("c11_oversize_closed");
			sim_stat("nontrivial", 1);
		}
		close(s->fd);
		break;
	}
	}
	s->fd       = -1;
	s->finished = true;
}

// Reactive part for REQ/SURVEYOR victims: read the victim's requests and answer them with
// crafted replies (the reply must echo the request id to be deliverable at all).
static bool
sp_take_frame(Sess *s, Bytes *pl, bool *greeted)
{
	World *w  = s->w;
	Bytes &rb = s->rxbuf;
	if (!*greeted) {
		if (rb.size() < 8)
			return false;
		rb.erase(rb.begin(), rb.begin() + 8);
		*greeted = true;
	}
	size_t hl = w->tr == X_IPC ? 9 : 8;
	if (rb.size() < hl)
		return false;
	uint64_t len = be64(&rb[hl - 8]);
	if (len > 60000)
		return false;
	if (rb.size() - hl < len)
		return false;
	pl->assign(rb.begin() + (long) hl, rb.begin() + (long) (hl + len));
	rb.erase(rb.begin(), rb.begin() + (long) (hl + len));
	return true;
}

static Bytes
craft_reply(World *w, Sess *s, const Bytes &req, uint64_t *declared)
{
	// request: id word(s) then body.  Echo the id so that the reply can reach the application.
	Bytes pl;
	size_t idlen = 0;
	while (idlen + 4 <= req.size()) {
		idlen += 4;
		if (req[idlen - 4] & 0x80)
			break;
	}
	int   idx  = (int) s->kinds.size();
	Bytes body = marker(s->id, idx, (int) W(0, 30));
	long  k    = W(0, 9);
	const char *kind;
	*declared = 0;
	if (k <= 3) {
		pl.assign(req.begin(), req.begin() + (long) idlen);
		append(pl, body);
		kind = "reply echoing the request id";
	} else if (k == 4) {
		pl = req; // the request itself, verbatim
		kind = "request echoed verbatim";
	} else if (k == 5) {
		pl.assign(req.begin(), req.begin() + (long) idlen);
		if (!pl.empty())
			pl[pl.size() >= 4 ? pl.size() - 4 : 0] &= 0x7f;
		for (auto &c : body)
			c &= 0x7f;
		append(pl, body);
		kind = "reply id with the high bit cleared";
	} else if (k == 6) {
		pl.assign(req.begin(), req.begin() + (long) std::min<size_t>(idlen, (size_t) W(0, 3)));
		kind = "reply cut inside the id word";
	} else if (k == 7) {
		pl.assign(req.begin(), req.begin() + (long) idlen);
		append(pl, body);
		*declared = pick_oversize(w);
		kind      = "reply echoing the id with oversize length field";
	} else if (k == 8) {
		pl.assign(req.begin(), req.begin() + (long) idlen);
		size_t lim = w->rcvmax > 0 && w->rcvmax <= 4096 ? w->rcvmax : 300;
		append(pl, body);
		if (pl.size() < lim + 1)
			pl.resize(lim + 1, 'z');
		kind = "reply echoing the id padded to RECVMAXSZ+1";
	} else {
		pl.assign(req.begin(), req.begin() + (long) idlen);
		kind = "reply echoing the id, empty body";
	}
	s->kinds.push_back(kind);
	return pl;
}

static void
sess_react_sp(Sess *s)
{
	World *w       = s->w;
	bool   greeted = false;
	int    left    = s->react;
	uint64_t until = sim_now_ns() + 600 * MS;
	while (left > 0 && sim_now_ns() < until && !s->eof_seen && !s->write_failed) {
		Bytes req;
		if (!sp_take_frame(s, &req, &greeted)) {
			sess_drain(s, 40 * MS);
			continue;
		}
		uint64_t declared;
		Bytes    pl = craft_reply(w, s, req, &declared);
		Bytes    fr;
		sp_frame(fr, w->tr, declared ? declared : pl.size(), pl);
		sim_event("sess %d: answers a %zu byte request with '%s'", s->id, req.size(), s->kinds.back().c_str());
		sess_write(s, fr.data(), fr.size());
		left--;
		sim_probe("c11_reactive_reply");
	}
}

static void
gen_common(World *w, Sess *s)
{
	(void) w;
	// truncation at any byte offset (resolved against the final script when the session runs)
	if (W(0, 3) == 0)
		s->cut_r = W(0, (1 << 20) - 1);
	// write boundaries
	int nc = (int) W(0, 4);
	for (int i = 0; i < nc; i++)
		s->cuts_r.push_back(W(0, (1 << 20) - 1));
	long ek = W(0, 11);
	if (ek <= 2)
		s->end_action = END_FIN;
	else if (ek <= 4)
		s->end_action = END_RST;
	else if (ek <= 6) {
		s->end_action = END_LINGER_FIN;
		s->linger_ms  = (uint64_t) W(1, 300);
	} else if (ek <= 8) {
		s->end_action = END_LINGER_RST;
		s->linger_ms  = (uint64_t) W(1, 300);
	} else if (ek == 9) {
		s->end_action = END_WAIT_EOF;
	} else if (ek == 10) {
		s->end_action = END_HALF_CLOSE;
		s->linger_ms  = (uint64_t) W(1, 300);
	} else {
		// slow loris: say nothing more for longer than the negotiation timeout
		s->end_action = W(0, 1) ? END_LINGER_FIN : END_LINGER_RST;
		s->linger_ms  = (uint64_t) W(9000, 12000);
	}
	s->drain          = W(0, 4) != 0;
	s->start_delay_us = (uint64_t) W(0, 20000);
}

// ---- connecting
static int
raw_connect(World *w, int idx)
{
	int fd, rv;
	if (w->tr == X_IPC) {
		struct sockaddr_un un;
		memset(&un, 0, sizeof(un));
		un.sun_family = AF_UNIX;
		snprintf(un.sun_path, sizeof(un.sun_path), "/sim/sock%d", idx);
		fd = simnet_socket(AF_UNIX, SOCK_STREAM);
		rv = simnet_connect_blocking(fd, &un, sizeof(un), 5 * SEC);
	} else {
		struct sockaddr_in in;
		memset(&in, 0, sizeof(in));
		in.sin_family      = AF_INET;
		in.sin_port        = htons((uint16_t) ((w->tr == X_WS ? 8000 : 5000) + idx));
		in.sin_addr.s_addr = htonl(0x7f000001);
		fd                 = simnet_socket(AF_INET, SOCK_STREAM);
		rv                 = simnet_connect_blocking(fd, &in, sizeof(in), 5 * SEC);
	}
	if (fd < 0)
		h_fatal("raw peer: no socket");
	if (rv != 0) {
		close(fd);
		return -1;
	}
	return fd;
}

static int
raw_listen(World *w, int idx)
{
	int fd;
	if (w->tr == X_IPC) {
		struct sockaddr_un un;
		memset(&un, 0, sizeof(un));
		un.sun_family = AF_UNIX;
		snprintf(un.sun_path, sizeof(un.sun_path), "/sim/sock%d", idx);
		fd = simnet_socket(AF_UNIX, SOCK_STREAM);
		if (fd < 0 || bind(fd, (struct sockaddr *) &un, sizeof(un)) != 0 || listen(fd, 16) != 0)
			h_fatal("raw ipc listener failed errno %d", errno);
	} else {
		struct sockaddr_in in;
		memset(&in, 0, sizeof(in));
		in.sin_family      = AF_INET;
		in.sin_port        = htons((uint16_t) ((w->tr == X_WS ? 8000 : 5000) + idx));
		in.sin_addr.s_addr = htonl(0x7f000001);
		fd                 = simnet_socket(AF_INET, SOCK_STREAM);
		if (fd < 0 || bind(fd, (struct sockaddr *) &in, sizeof(in)) != 0 || listen(fd, 16) != 0)
			h_fatal("raw tcp listener failed errno %d", errno);
	}
	return fd;
}

// socket:// only: one descriptor at a time is handed to the victim's listener (see World::sfd_race)
static void
sfd_lock(World *w)
{
	while (w->sfd_busy && !w->sfd_race)
		sim_sleep_ms(1);
	w->sfd_busy = 1;
}
static void
sfd_unlock(World *w)
{
	w->sfd_busy = 0;
}

static void
sess_task(void *a)
{
	Sess  *s = (Sess *) a;
	World *w = s->w;
	sim_sleep_ns(s->start_delay_us * 1000);
	if (w->tr == X_SFD) {
		int fds[2];
		if (socketpair(AF_UNIX, SOCK_STREAM, 0, fds) != 0)
			h_fatal("socketpair failed");
		sfd_lock(w);
		MUST(nng_listener_set_int(w->VL, NNG_OPT_SOCKET_FD, fds[0]));
		// the listener has taken the descriptor once its greeting arrives
		for (int i = 0; i < 2000 && !w->sfd_race && !simnet_poll_in(fds[1]); i++)
			sim_sleep_ms(1);
		sfd_unlock(w);
		s->fd = fds[1];
	} else {
		s->fd = raw_connect(w, 1);
	}
	if (s->fd < 0) {
		sim_event("sess %d: connect refused", s->id);
		sim_probe("c11_connect_refused");
		s->finished = true;
		s->done     = 1;
		return;
	}
	sim_event("sess %d: connected, script %zu bytes", s->id, s->script.size());
	if (w->late_limit) {
		w->late_connected++;
		(void) sim_wait_flag(&w->late_go, 5 * SEC);
	}
	sess_play(s);
	s->done = 1;
}

// hostile listener for a dialing victim: every accepted connection plays the next script
struct HServer {
	World *w;
	int    lfd;
	volatile int done;
};

static void
hserver_task(void *a)
{
	HServer *h = (HServer *) a;
	World   *w = h->w;
	for (Sess *s : w->sess) {
		int fd = simnet_accept_blocking(h->lfd, 3 * SEC);
		if (fd < 0) {
			sim_event("hostile listener: no connection within 3 s (errno %d)", errno);
			sim_probe("c11_dialer_did_not_return");
			break;
		}
		s->fd = fd;
		sim_event("sess %d: accepted, script %zu bytes", s->id, s->script.size());
		if (w->tr == X_WS) {
			// read the victim's upgrade request, answer it (the answer needs its key)
			uint64_t until = sim_now_ns() + 2 * SEC;
			while (find_hdr_end(s->rxbuf) == 0 && !s->eof_seen && sim_now_ns() < until)
				sess_drain(s, 50 * MS);
			size_t      he = find_hdr_end(s->rxbuf);
			std::string req((const char *) s->rxbuf.data(), he);
			std::string low = req;
			for (auto &c : low)
				c = (char) tolower((unsigned char) c);
			std::string key;
			size_t      kp = low.find("sec-websocket-key:");
			if (kp != std::string::npos) {
				size_t a = kp + 18;
				while (a < req.size() && req[a] == ' ')
					a++;
				size_t e = req.find('\r', a);
				key      = req.substr(a, e == std::string::npos ? std::string::npos : e - a);
			}
			if (he > 0) {
				s->rxbuf.erase(s->rxbuf.begin(), s->rxbuf.begin() + (long) he);
				s->rx_http_done = true;
			}
			Bytes resp = ws_make_response(w, s, key);
			s->script.insert(s->script.begin(), resp.begin(), resp.end());
			for (auto &it : s->plan)
				it.end_off += resp.size();
			if (s->plan_close_off)
				s->plan_close_off += resp.size();
			s->hs_len = resp.size();
		}
		sess_play(s);
		s->done = 1;
	}
	h->done = 1;
}

// ------------------------------------------------------------------ SP over UDP
// datagram: ver(1)=1 | opcode(1) | type(2, LE) | param0(2, LE) | param1(2, LE) | payload
enum { UOP_DATA = 0, UOP_CREQ = 1, UOP_CACK = 2, UOP_DISC = 3, UOP_MESH = 4 };
enum { U_NONE = 0, U_CONN, U_CONN_WRONG };

static Bytes
udp_dgram(int ver, int op, uint16_t type, uint16_t p0, uint16_t p1, const Bytes &payload)
{
	Bytes d;
	d.push_back((uint8_t) ver);
	d.push_back((uint8_t) op);
	d.push_back((uint8_t) type);
	d.push_back((uint8_t) (type >> 8));
	d.push_back((uint8_t) p0);
	d.push_back((uint8_t) (p0 >> 8));
	d.push_back((uint8_t) p1);
	d.push_back((uint8_t) (p1 >> 8));
	append(d, payload);
	return d;
}

struct UdpGen {
	World *w;
	Sess  *s;
	bool   client;  // we are the connecting side (victim listens)
	int    st;
	bool   certain; // so far only canonical traffic: the strict reading is the only one
	bool   closed;  // a datagram that ends the connection has been generated
};

// reference model of one datagram we are going to send (strict SP/UDP reading)
static void
udp_account(UdpGen *g, const Bytes &d)
{
	World   *w    = g->w;
	Sess    *s    = g->s;
	uint16_t want = PI[PI[w->vt].peer].id;
	size_t   idx  = s->dgs.size(); // this datagram's index; plan offsets are "datagrams sent"
	if (d.size() < 8 || d[0] != 1)
		return; // not SP/UDP version 1: ignored
	int      op   = d[1];
	uint16_t type = (uint16_t) (d[2] | (d[3] << 8));
	uint16_t p0   = (uint16_t) (d[4] | (d[5] << 8));
	uint16_t p1   = (uint16_t) (d[6] | (d[7] << 8));
	size_t   act  = d.size() - 8;
	switch (op) {
	case UOP_CREQ:
		if (!g->client) {
			g->certain = false; // a dialer is not supposed to get connection requests
			break;
		}
		if (p1 == 0) {
			if (g->st != U_NONE)
				g->closed = true;
			g->st = U_NONE;
		} else if (type != want) {
			// a request for a protocol the victim does not speak is refused; when exactly the
			// refusal takes effect relative to later datagrams is not ours to know
			if (g->st == U_CONN)
				g->closed = true;
			g->st      = U_NONE;
			g->certain = false;
		} else if (g->st == U_NONE) {
			g->st = U_CONN;
			// re-opening right after this session closed its connection: whether the
			// victim has finished tearing the old one down when the new request
			// arrives (and so takes it) is not ours to know
			if (g->closed)
				g->certain = false;
		}
		break;
	case UOP_CACK:
		if (g->client) {
			g->certain = false;
			break;
		}
		if (p1 == 0 || type != want) {
			g->st     = U_NONE;
			g->closed = true;
		} else {
			g->st = U_CONN;
			if (g->closed)
				g->certain = false;
		}
		break;
	case UOP_DISC:
		if (g->st != U_NONE)
			g->closed = true;
		g->st = U_NONE;
		break;
	case UOP_DATA: {
		if (p0 > act) {
			// length field beyond the datagram: no strict reading delivers it
			if (g->st == U_CONN)
				g->closed = true;
			g->st      = U_NONE;
			g->certain = false;
			break;
		}
		if (p0 > w->rcvmax) {
			if (g->st == U_CONN && g->certain && s->plan_close_off == 0)
				s->plan_close_off = idx + 1;
			if (g->st == U_CONN)
				g->closed = true;
			g->st = U_NONE;
			break;
		}
		if (g->st != U_CONN && g->certain && g->client)
			break; // no connection: not deliverable
		// (towards a dialer the connecting pipe exists before our CACK: nng queues such data
		// and hands it up if a CACK follows - allowed, not required)
		Expect e;
		if (model_payload(w, d.data() + 8, p0, &e)) {
			PlanItem it;
			it.end_off = idx + 1;
			it.cls     = g->certain && g->st == U_CONN && p0 == act && type == want ? e.cls : CL_DONTCARE;
			it.body    = e.body;
			s->plan.push_back(it);
		} else {
			// malformed for the victim's protocol (or the victim does not receive at all): nng
			// closes the connection, another implementation might not - unknown from here on
			g->certain = false;
		}
		break;
	}
	default:
		g->certain = false;
		break;
	}
}

static void
udp_add(UdpGen *g, const Bytes &d, const char *what)
{
	udp_account(g, d);
	g->s->dgs.push_back(d);
	if (g->w->p->i("dbg", 0))
		sim_event("sess %d: dg %zu = %s (st %d certain %d plan %zu)", g->s->id, g->s->dgs.size() - 1,
		    h_hex(d.data(), d.size(), 24).c_str(), g->st, (int) g->certain, g->s->plan.size());
	if (what)
		sim_event("sess %d: datagram %zu: %s", g->s->id, g->s->dgs.size() - 1, what);
}

static void
gen_udp_script(World *w, Sess *s)
{
	UdpGen g;
	g.w       = w;
	g.s       = s;
	g.client  = !w->vdial;
	g.st      = U_NONE;
	bool     pair = w->vt == V_PAIR0 || w->vt == V_PAIR1;
	g.certain = !pair; // a PAIR socket may turn us away (slot taken): nothing is certain then
	g.closed  = false;
	uint16_t me = PI[PI[w->vt].peer].id;
	Bytes    none;
	// opening
	if (g.client && W(0, 9) == 0) {
		Bytes pl = gen_payload(w, s, 10);
		s->kinds.back() += " before any connection request";
		udp_add(&g, udp_dgram(1, UOP_DATA, me, (uint16_t) pl.size(), 0, pl), "data before connecting");
	}
	long hk = W(0, 15);
	int  hop = g.client ? UOP_CREQ : UOP_CACK;
	if (hk <= 9) {
		udp_add(&g, udp_dgram(1, hop, me, (uint16_t) W(0, 65535), (uint16_t) W(1, 10), none), NULL);
	} else if (hk == 10) {
		static const uint16_t ids[] = { 0x10, 0x11, 0x20, 0x21, 0x30, 0x31, 0x50, 0x51, 0x62, 0x63, 0x70, 0, 0xffff, 0x3100 };
		uint16_t              o     = ids[W(0, 13)];
		if (o == me)
			o ^= 0x100;
		udp_add(&g, udp_dgram(1, hop, o, 65000, 5, none), "wrong protocol id");
	} else if (hk == 11) {
		udp_add(&g, udp_dgram(1, hop, me, 65000, 0, none), "refresh time zero");
	} else if (hk == 12) {
		udp_add(&g, udp_dgram(W(0, 1) ? 0 : (int) W(2, 255), hop, me, 65000, 5, none), "wrong version");
	} else if (hk == 13) {
		Bytes d = udp_dgram(1, hop, me, 65000, 5, none);
		d.resize((size_t) W(0, 7));
		udp_add(&g, d, "truncated header");
	} else if (hk == 14) {
		udp_add(&g, udp_dgram(1, g.client ? UOP_CACK : UOP_CREQ, me, 65000, 5, none), "the other side's opening");
	} else {
		Bytes junk;
		int   n = (int) W(0, 40);
		for (int i = 0; i < n; i++)
			junk.push_back((uint8_t) W(0, 255));
		udp_add(&g, udp_dgram(1, (int) W(4, 255), me, (uint16_t) W(0, 65535), (uint16_t) W(0, 65535), junk), "unknown opcode");
	}
	int n = (int) W(0, 6);
	for (int i = 0; i < n; i++) {
		if (!g.client && g.closed)
			break; // (server role) the dialer is about to come back with a new request
		long k = W(0, 19);
		if (k <= 8) {
			Bytes pl = gen_payload(w, s, k == 8 ? 2000 : 40);
			if (pl.size() > 65000)
				pl.resize(65000);
			udp_add(&g, udp_dgram(1, UOP_DATA, me, (uint16_t) pl.size(), 0, pl), NULL);
		} else if (k == 9) {
			// as large as RECVMAXSZ allows, and one byte more
			Bytes  pl   = gen_payload(w, s, 0);
			size_t want = w->rcvmax + (size_t) W(0, 1);
			if (pl.size() < want)
				pl.resize(want, 'z');
			s->kinds.back() += pl.size() > w->rcvmax ? " padded to RECVMAXSZ+1" : " padded to RECVMAXSZ";
			udp_add(&g, udp_dgram(1, UOP_DATA, me, (uint16_t) pl.size(), 0, pl), "data at the size limit");
		} else if (k == 10) {
			Bytes pl = gen_payload(w, s, 40);
			size_t big = std::min<size_t>(65400, w->rcvmax + (size_t) W(1, 400));
			pl.resize(big, 'z');
			s->kinds.back() += " oversize";
			udp_add(&g, udp_dgram(1, UOP_DATA, me, (uint16_t) pl.size(), 0, pl), "data above the size limit");
		} else if (k == 11) {
			Bytes pl = gen_payload(w, s, 40);
			s->kinds.back() += " with length field beyond the datagram";
			uint16_t l = (uint16_t) std::min<size_t>(65535, pl.size() + (size_t) (W(0, 1) ? W(1, 64) : W(1000, 65535)));
			udp_add(&g, udp_dgram(1, UOP_DATA, me, l, 0, pl), "length field beyond the datagram");
		} else if (k == 12) {
			Bytes pl = gen_payload(w, s, 40);
			s->kinds.back() += " with short length field";
			udp_add(&g, udp_dgram(1, UOP_DATA, me, (uint16_t) W(0, (long) pl.size()), 0, pl), "length field short of the datagram");
		} else if (k == 13) {
			udp_add(&g, udp_dgram(1, (int) W(4, 255), me, (uint16_t) W(0, 65535), 0, none), "unknown opcode");
		} else if (k == 14) {
			long r = W(0, 2);
			udp_add(&g, udp_dgram(1, hop, r == 1 ? (uint16_t) (me ^ 0x100) : me, 65000, r == 2 ? 0 : (uint16_t) W(1, 10), none),
			    r == 0 ? "opening repeated" : r == 1 ? "opening repeated with another protocol id" : "opening repeated with refresh zero");
		} else if (k == 15) {
			udp_add(&g, udp_dgram(1, UOP_DISC, me, (uint16_t) W(0, 8), 0, none), "disconnect");
		} else if (k == 16) {
			Bytes d;
			int   m = (int) W(0, 30);
			for (int j = 0; j < m; j++)
				d.push_back((uint8_t) W(0, 255));
			if (d.size() >= 8 && d[0] == 1)
				d[0] = 7;
			udp_add(&g, d, "garbage datagram");
		} else if (k == 17) {
			Bytes pl = gen_payload(w, s, 40);
			s->kinds.back() += " with foreign protocol id in the data header";
			udp_add(&g, udp_dgram(1, UOP_DATA, (uint16_t) (me ^ 0x100), (uint16_t) pl.size(), 0, pl), "data with another protocol id");
		} else if (k == 18) {
			udp_add(&g, udp_dgram(1, g.client ? UOP_CACK : UOP_CREQ, me, 65000, 5, none), "the other side's opening");
		} else {
			Bytes pl;
			s->kinds.push_back("empty data");
			udp_add(&g, udp_dgram(1, UOP_DATA, me, 0, 0, pl), "empty data");
		}
	}
	// there is no FIN over UDP: a peer that just falls silent stays "connected" for 5 refresh
	// periods and a PUSH/REQ victim keeps sending into the void, so every session says goodbye
	s->udp_final_disc = true;
	s->ws_state       = g.st == U_CONN && g.certain ? ST_INTACT : ST_DEAD;
}

static void
udp_model(Sess *s)
{
	for (auto &it : s->plan) {
		if (it.end_off > s->dg_sent)
			continue;
		Expect e;
		e.cls  = it.cls;
		e.body = it.body;
		s->model.exp.push_back(e);
	}
	if (s->plan_close_off != 0 && s->plan_close_off <= s->dg_sent) {
		s->model.must_close     = true;
		s->model.must_close_off = s->plan_close_off - 1;
	}
}

static struct sockaddr_in
udp_addr(int port)
{
	struct sockaddr_in in;
	memset(&in, 0, sizeof(in));
	in.sin_family      = AF_INET;
	in.sin_port        = htons((uint16_t) port);
	in.sin_addr.s_addr = htonl(0x7f000001);
	return in;
}

static void
udp_send(Sess *s, const struct sockaddr_in *to, const Bytes &d)
{
	struct msghdr mh;
	struct iovec  iov;
	uint8_t       dummy = 0;
	memset(&mh, 0, sizeof(mh));
	iov.iov_base   = d.empty() ? (void *) &dummy : (void *) d.data();
	iov.iov_len    = d.size();
	mh.msg_name    = (void *) to;
	mh.msg_namelen = sizeof(*to);
	mh.msg_iov     = &iov;
	mh.msg_iovlen  = 1;
	if (sendmsg(s->fd, &mh, 0) < 0)
		sim_event("sess %d: sendmsg failed errno %d", s->id, errno);
}

// wait up to tmo_ms for one datagram
static bool
udp_recv(Sess *s, Bytes *d, struct sockaddr_in *from, int tmo_ms)
{
	struct pollfd pfd;
	pfd.fd      = s->fd;
	pfd.events  = POLLIN;
	pfd.revents = 0;
	if (poll(&pfd, 1, tmo_ms) <= 0)
		return false;
	struct msghdr mh;
	struct iovec  iov;
	d->resize(66000);
	memset(&mh, 0, sizeof(mh));
	iov.iov_base   = d->data();
	iov.iov_len    = d->size();
	mh.msg_name    = from;
	mh.msg_namelen = from ? sizeof(*from) : 0;
	mh.msg_iov     = &iov;
	mh.msg_iovlen  = 1;
	ssize_t n      = recvmsg(s->fd, &mh, 0);
	if (n < 0)
		return false;
	d->resize((size_t) n);
	return true;
}

// note what the victim sends us
static void
udp_note(Sess *s, const Bytes &d)
{
	if (d.size() >= 8 && d[0] == 1) {
		if (d[1] == UOP_DISC) {
			s->udp_got_disc++;
			sim_event("sess %d: victim sent DISC reason %d", s->id, d[4] | (d[5] << 8));
		} else if (d[1] == UOP_CACK || d[1] == UOP_CREQ) {
			s->udp_got_open++;
		} else if (d[1] == UOP_DATA) {
			s->udp_rx_data.push_back(d);
		}
	}
}

static void
udp_drain(Sess *s, int tmo_ms)
{
	Bytes d;
	for (int i = 0; i < 50 && udp_recv(s, &d, NULL, tmo_ms); i++) {
		udp_note(s, d);
		tmo_ms = 0;
	}
}

// play a datagram script towards `to`
static void
udp_play(Sess *s, const struct sockaddr_in *to)
{
	World *w = s->w;
	for (size_t i = 0; i < s->dgs.size(); i++) {
		if (s->cut_r >= 0 && i >= (size_t) (((uint64_t) (s->dgs.size() + 1) * (uint64_t) s->cut_r) >> 20) && s->react == 0) {
			sim_event("sess %d: stops after %zu of %zu datagrams", s->id, i, s->dgs.size());
			break;
		}
		udp_send(s, to, s->dgs[i]);
		s->dg_sent = i + 1;
		udp_drain(s, (int) W(0, 3));
	}
	// answer the victim's requests (REQ / SURVEYOR victims)
	if (s->react > 0 && s->ws_state == ST_INTACT && s->dg_sent == s->dgs.size()) {
		UdpGen g;
		g.w       = w;
		g.s       = s;
		g.client  = !w->vdial;
		g.st      = U_CONN;
		g.certain = true;
		g.closed  = false;
		uint16_t me    = PI[PI[w->vt].peer].id;
		int      left  = s->react;
		uint64_t until = sim_now_ns() + 600 * MS;
		while (left > 0 && sim_now_ns() < until && g.st == U_CONN) {
			if (s->udp_rx_data.empty()) {
				udp_drain(s, 40);
				continue;
			}
			Bytes rq = s->udp_rx_data.front();
			s->udp_rx_data.erase(s->udp_rx_data.begin());
			size_t l = std::min<size_t>(rq.size() - 8, (size_t) (rq[4] | (rq[5] << 8)));
			Bytes  req(rq.begin() + 8, rq.begin() + 8 + (long) l);
			uint64_t declared;
			Bytes    pl = craft_reply(w, s, req, &declared);
			if (pl.size() > 65000)
				pl.resize(65000);
			uint16_t lf = declared ? 65535 : (uint16_t) pl.size();
			Bytes    d  = udp_dgram(1, UOP_DATA, me, lf, 0, pl);
			sim_event("sess %d: answers a %zu byte request with '%s'", s->id, req.size(), s->kinds.back().c_str());
			udp_account(&g, d);
			s->dgs.push_back(d);
			udp_send(s, to, d);
			s->dg_sent = s->dgs.size();
			left--;
			sim_probe("c11_reactive_reply");
		}
	}
	udp_model(s);
	bool expect_close = s->model.must_close;
	sim_event("sess %d: sent %zu of %zu datagrams, %zu deliverable, must_close=%d", s->id, s->dg_sent, s->dgs.size(),
	    s->model.exp.size(), (int) expect_close);
	if (expect_close) {
		// "closes that connection": over UDP that is a DISC datagram to the sender
		uint64_t t0 = sim_now_ns(), s0 = sim_stall_total_ns();
		while (s->udp_got_disc == 0) {
			udp_drain(s, 100);
			uint64_t el = sim_now_ns() - t0, st = sim_stall_total_ns() - s0;
			el = el > st ? el - st : 0;
			if (el > 5 * SEC)
				VIOL("oversize_not_closed",
				    "hostile udp peer %d (%s victim %s%s, effective RECVMAXSZ %zu) sent a DATA datagram longer than "
				    "RECVMAXSZ (datagram %zu) on an established connection; no DISC came back within %llu ms",
				    s->id, w->vdial ? "dialing" : "listening", PI[w->vt].name, w->raw ? "(raw)" : "", w->rcvmax,
				    s->model.must_close_off, (unsigned long long) (el / MS));
		}
		sim_probe("c11_oversize_closed");
		sim_stat("nontrivial", 1);
	} else if (s->linger_ms > 0 && s->linger_ms < 9000) {
		uint64_t until = sim_now_ns() + s->linger_ms * MS;
		while (sim_now_ns() < until)
			udp_drain(s, (int) std::min<uint64_t>((until - sim_now_ns()) / MS + 1, 50));
	}
	if (s->udp_final_disc) {
		Bytes none;
		udp_send(s, to, udp_dgram(1, UOP_DISC, PI[PI[w->vt].peer].id, 0, 0, none));
		sim_event("sess %d: final DISC", s->id);
	}
	if (s->udp_got_disc)
		sim_probe("c11_victim_hung_up");
	s->finished = true;
}

static void
udp_client_task(void *a)
{
	Sess  *s = (Sess *) a;
	sim_sleep_ns(s->start_delay_us * 1000);
	s->fd = simnet_socket(AF_INET, SOCK_DGRAM);
	if (s->fd < 0)
		h_fatal("no datagram socket");
	struct sockaddr_in to = udp_addr(9001);
	udp_play(s, &to);
	close(s->fd);
	s->fd   = -1;
	s->done = 1;
}

// hostile "listener" for a dialing victim: one bound datagram socket, one session per connection
// request that arrives
static void
udp_server_task(void *a)
{
	HServer *h = (HServer *) a;
	World   *w = h->w;
	for (Sess *s : w->sess) {
		s->fd = h->lfd;
		if (s != w->sess.front()) {
			// Requests the victim sent before it acted on our last DISC (a connected pipe's
			// periodic refresh, retransmissions of the attempt we just ended) are stale: the
			// pipe that sent them is gone, and an answer to them reaches nobody.  Let the victim
			// settle, throw away what has piled up, and answer a request that is certainly new.
			sim_quiesce(500000);
			Bytes junk;
			for (int i = 0; i < 100 && udp_recv(s, &junk, NULL, 0); i++)
				sim_probe("c11_udp_stale_datagram_discarded");
		}
		// wait for the victim's (next) connection request
		struct sockaddr_in from;
		bool               got   = false;
		uint64_t           until = sim_now_ns() + 3 * SEC;
		while (!got && sim_now_ns() < until) {
			Bytes d;
			if (!udp_recv(s, &d, &from, 100))
				continue;
			if (d.size() >= 8 && d[0] == 1 && d[1] == UOP_CREQ)
				got = true;
		}
		if (!got) {
			sim_event("hostile udp listener: no connection request within 3 s");
			sim_probe("c11_dialer_did_not_return");
			break;
		}
		sim_event("sess %d: connection request from port %d, %zu datagrams to play", s->id, ntohs(from.sin_port), s->dgs.size());
		udp_play(s, &from);
		s->done = 1;
		// let the victim's redial (if any) get going before the next session reads its request
		sim_sleep_ms(5);
	}
	h->done = 1;
}

// ------------------------------------------------------------------ the run
static const char *TRN[] = { "tcp", "ipc", "socket", "ws", "udp" };

static std::string
url_of(World *w, int idx)
{
	switch (w->tr) {
	case X_TCP:
		return h_url(TR_TCP, idx);
	case X_IPC:
		return h_url(TR_IPC, idx);
	case X_WS:
		return h_url(TR_WS, idx);
	case X_SFD:
		return "socket://";
	default: {
		char b[64];
		snprintf(b, sizeof(b), "udp://127.0.0.1:%d", 9000 + idx);
		return b;
	}
	}
}

// connect a well-behaved peer to the listening victim (or, for socket://, hand both ends over)
static void
good_connect(World *w, Good *g, bool blocking)
{
	if (w->tr == X_SFD) {
		int fds[2];
		if (!g->gl_made) {
			MUST(nng_listener_create(&g->gl, g->s, "socket://"));
			MUST(nng_listener_start(g->gl, 0));
			g->gl_made = true;
		}
		if (socketpair(AF_UNIX, SOCK_STREAM, 0, fds) != 0)
			h_fatal("socketpair failed");
		sfd_lock(w);
		int before = g->added;
		MUST(nng_listener_set_int(w->VL, NNG_OPT_SOCKET_FD, fds[0]));
		MUST(nng_listener_set_int(g->gl, NNG_OPT_SOCKET_FD, fds[1]));
		// both listeners have taken their descriptor once the handshake is through
		for (int i = 0; i < 2000 && !w->sfd_race && g->added == before; i++)
			sim_sleep_ms(1);
		sfd_unlock(w);
		return;
	}
	std::string u = url_of(w, 1);
	if (blocking)
		MUST(nng_dial(g->s, u.c_str(), NULL, 0));
	else
		MUST(nng_dial(g->s, u.c_str(), NULL, NNG_FLAG_NONBLOCK));
}

static void
judge_foreign(World *w)
{
	for (auto &f : w->foreign) {
		bool ok = false;
		for (Sess *s : w->sess) {
			for (auto &e : s->model.exp)
				if (e.body == f.body) {
					ok = true;
					sim_stat(e.cls == CL_VALID ? "hostile_valid_delivered" : "hostile_dontcare_delivered", 1);
					break;
				}
			if (ok)
				break;
		}
		if (ok)
			continue;
		std::string d = describe_body(w, f.body);
		bool        over = (d.find("oversize") != std::string::npos || d.find("RECVMAXSZ+1") != std::string::npos) &&
		    w->rcvmax > 0 && f.body.size() + 320 > w->rcvmax;
		sim_violation(h_prop, over ? "oversize_delivered" : "malformed_delivered",
		    "victim %s%s over %s (RECVMAXSZ %zu, ttl %d) delivered a %zu byte message (%s) to the application "
		    "that no well-behaved peer sent and that the reference decoder does not find as a deliverable "
		    "message in any hostile byte stream: %s",
		    PI[w->vt].name, w->raw ? "(raw)" : "", TRN[w->tr], w->rcvmax, w->ttl, f.body.size(),
		    h_hex(f.body.data(), f.body.size(), 24).c_str(), d.c_str());
	}
}

static void
hostile_run(Params *p, int trsel)
{
	World w;
	w.p  = p;
	w.tr = trsel;
	if (p->i("log", 0)) {
		nng_log_set_logger(nng_stderr_logger);
		nng_log_set_level(NNG_LOG_DEBUG);
	}
	// --- configuration (0 = simplest)
	w.vt  = (int) p->draw("vt", 0, V_N - 1);
	w.raw = p->draw("raw", 0, 2) == 1 && PI[w.vt].can_raw;
	w.hm  = header_model(w.vt, w.raw);
	long role = p->draw("vdial", 0, 3);
	w.vdial   = role == 3 && w.tr != X_SFD;
	long rm   = p->draw("rcvmax", 0, 5);
	static const size_t rms[] = { 0 /* library default, read back below */, 0, 64, 200, 1000, 70000 };
	w.rcvmax     = rms[rm];
	w.rcvmax_eff = w.rcvmax;
	w.ttl        = 8;
	w.good_max   = 40;
	long per     = p->draw("period", 0, 2);
	w.period_ms  = per == 0 ? 20 : per == 1 ? 8 : 50;
	bool pair    = w.vt == V_PAIR0 || w.vt == V_PAIR1;
	w.has_ctl    = !pair;
	w.vserial    = 0;
	w.vstop      = 0;
	w.sfd_busy   = 0;
	w.sfd_race   = p->draw("sfd_race", 0, 1) != 0;
	good_init(&w, &w.ctl, O_CTL, "control");
	good_init(&w, &w.late, O_LATE, "late joiner");

	MUST((w.raw ? PI[w.vt].open_raw : PI[w.vt].open)(&w.V));
	// "the configured NNG_OPT_RECVMAXSZ" may be configured late: on the listener,
	// once the hostile peers have their connections open but have not said a word
	w.late_limit     = rm != 0 && !w.vdial && (w.tr == X_TCP || w.tr == X_IPC) && p->draw("latelimit", 0, 2) == 0;
	w.late_connected = 0;
	w.late_go        = 0;
	size_t early_max = w.rcvmax;
	if (w.late_limit)
		early_max = w.rcvmax * 16 + 70000;
	if (rm != 0)
		MUST(nng_socket_set_size(w.V, NNG_OPT_RECVMAXSZ, early_max));
	else
		MUST(nng_socket_get_size(w.V, NNG_OPT_RECVMAXSZ, &w.rcvmax));
	if (w.tr == X_UDP && (w.rcvmax == 0 || w.rcvmax > 65000))
		w.rcvmax = 65000; // what the udp transport makes of it
	w.rcvmax_eff = w.rcvmax;
	if (w.hm == HM_HOP || w.hm == HM_BT_TTL) {
		long t = p->draw("ttl", 0, 3);
		if (t != 0) {
			w.ttl = t == 1 ? 1 : t == 2 ? 3 : 15;
			MUST(nng_socket_set_int(w.V, NNG_OPT_MAXTTL, w.ttl));
		}
	}
	MUST(nng_pipe_notify(w.V, NNG_PIPE_EV_ADD_POST, vpipe_cb, &w));
	MUST(nng_pipe_notify(w.V, NNG_PIPE_EV_REM_POST, vpipe_cb, &w));
	MUST(nng_socket_set_ms(w.V, NNG_OPT_RECVTIMEO, v_requests(w.vt) ? (int) RQ_WINDOW_MS : POLL_MS));
	MUST(nng_socket_set_ms(w.V, NNG_OPT_SENDTIMEO, SEND_MS));
	MUST(nng_socket_set_ms(w.V, NNG_OPT_RECONNMINT, 10));
	MUST(nng_socket_set_ms(w.V, NNG_OPT_RECONNMAXT, 40));
	if (w.vt == V_SUB && !w.raw)
		MUST(nng_sub0_socket_subscribe(w.V, "", 0));
	if (w.vt == V_REQ && !w.raw)
		MUST(nng_socket_set_ms(w.V, NNG_OPT_REQ_RESENDTIME, RESEND_MS));
	if (w.vt == V_SURV && !w.raw)
		MUST(nng_socket_set_ms(w.V, NNG_OPT_SURVEYOR_SURVEYTIME, (nng_duration) RQ_WINDOW_MS));
	sim_event("c11 victim %s%s over %s, %s, RECVMAXSZ %zu, ttl %d, period %d ms", PI[w.vt].name,
	    w.raw ? "(raw)" : "", TRN[w.tr], w.vdial ? "dialing" : "listening", w.rcvmax, w.ttl, w.period_ms);

	// --- hostile scripts are fixed before anything runs
	int nsess = (int) W(1, 5);
	for (int i = 0; i < nsess; i++) {
		Sess *s = new Sess();
		s->w    = &w;
		s->id   = i;
		if (w.tr == X_WS)
			gen_ws_script(&w, s);
		else if (w.tr == X_UDP)
			gen_udp_script(&w, s);
		else
			gen_sp_script(&w, s);
		gen_common(&w, s);
		if (v_requests(w.vt) && W(0, 2) != 0) {
			s->react = (int) W(1, 4);
			s->drain = true;
		}
		w.sess.push_back(s);
	}
	int  nslow = 0;
	for (Sess *s : w.sess)
		if (s->linger_ms >= 9000 && nslow++ > 0)
			s->linger_ms = (uint64_t) W(1, 300); // one 10 s wait per run is enough
	if (nslow > 0) {
		// keep the step count of a 10 s wait reasonable
		w.period_ms = w.ctl.period_ms = w.late.period_ms = 200;
	}

	// --- bring up the victim and the control connection
	HServer hs;
	hs.w    = &w;
	hs.lfd  = -1;
	hs.done = 0;
	if (!w.vdial) {
		MUST(nng_listener_create(&w.VL, w.V, url_of(&w, 1).c_str()));
		MUST(nng_listener_start(w.VL, 0));
		size_t got = 12345;
		MUST(nng_listener_get_size(w.VL, NNG_OPT_RECVMAXSZ, &got));
		if (got != (w.late_limit ? early_max : w.rcvmax))
			h_fatal("listener RECVMAXSZ %zu, expected %zu", got, w.late_limit ? early_max : w.rcvmax);
		if (w.has_ctl) {
			good_open(&w, &w.ctl);
			good_connect(&w, &w.ctl, true);
		}
	} else {
		if (w.has_ctl) {
			good_open(&w, &w.ctl);
			MUST(nng_listen(w.ctl.s, url_of(&w, 2).c_str(), NULL, 0));
			MUST(nng_dial(w.V, url_of(&w, 2).c_str(), NULL, 0));
		}
		if (w.tr == X_UDP) {
			struct sockaddr_in in = udp_addr(9001);
			hs.lfd                = simnet_socket(AF_INET, SOCK_DGRAM);
			if (hs.lfd < 0 || bind(hs.lfd, (struct sockaddr *) &in, sizeof(in)) != 0)
				h_fatal("raw udp bind failed errno %d", errno);
		} else {
			hs.lfd = raw_listen(&w, 1);
		}
	}
	victim_spawn(&w);
	uint64_t took = 0;
	if (w.has_ctl) {
		good_spawn(&w, &w.ctl);
		if (!wait_link(&w, &w.ctl, sim_now_ns(), 10 * SEC, &took))
			h_fatal("baseline: control connection made no exchange in 10 s before any attack (victim %s%s %s)",
			    PI[w.vt].name, w.raw ? "(raw)" : "", TRN[w.tr]);
		sim_event("baseline exchange took %llu us", (unsigned long long) (took / 1000));
	}

	// --- attack
	uint64_t t_attack = sim_now_ns();
	int      hst      = -1;
	if (w.vdial) {
		hst = sim_spawn("hserver", w.tr == X_UDP ? udp_server_task : hserver_task, &hs, 0);
		MUST(nng_dialer_create(&w.VD, w.V, url_of(&w, 1).c_str()));
		MUST(nng_dialer_start(w.VD, NNG_FLAG_NONBLOCK));
	} else {
		bool serial = W(0, 2) == 0 && !w.late_limit;
		for (Sess *s : w.sess) {
			s->tid = sim_spawn("hostile", w.tr == X_UDP ? udp_client_task : sess_task, s, 0);
			if (serial)
				sim_join(s->tid);
		}
		if (w.late_limit) {
			// all of them are connected (or refused) and silent: now the limit
			uint64_t until = sim_now_ns() + 3 * SEC;
			for (;;) {
				int n = 0;
				for (Sess *s : w.sess)
					if (s->done)
						n++;
				if (n + w.late_connected >= (int) w.sess.size() || sim_now_ns() > until)
					break;
				sim_sleep_ms(1);
			}
			MUST(nng_listener_set_size(w.VL, NNG_OPT_RECVMAXSZ, w.rcvmax));
			sim_event("RECVMAXSZ lowered to %zu on the listener with %d hostile connection(s) open and silent", w.rcvmax,
			    (int) w.late_connected);
			sim_probe("c11_limit_set_after_connect");
			w.late_go = 1;
		}
	}
	// while the attack runs the control connection must keep working
	auto all_done = [&]() {
		if (w.vdial)
			return hs.done != 0;
		for (Sess *s : w.sess)
			if (!s->done)
				return false;
		return true;
	};
	int nchk = 0;
	while (!all_done()) {
		if (w.has_ctl) {
			uint64_t t0 = sim_now_ns();
			if (!wait_link(&w, &w.ctl, t0, 5 * SEC, &took))
				VIOL("control_starved",
				    "the control connection (established before the attack) completed no exchange begun after "
				    "t=%llu ms within %llu ms (stalls subtracted) while hostile sessions ran; victim %s%s over %s %s",
				    (unsigned long long) ((t0 - t_attack) / MS), (unsigned long long) (took / MS), PI[w.vt].name,
				    w.raw ? "(raw)" : "", TRN[w.tr], w.vdial ? "dialing" : "listening");
			nchk++;
			sim_stat("during_checks", 1);
			if (took > 500 * MS)
				sim_probe("c11_control_exchange_over_500ms");
		}
		sim_sleep_ms((uint64_t) W(5, 60));
	}
	if (w.vdial) {
		sim_join(hst);
		close(hs.lfd);
		hs.lfd = -1;
	} else {
		for (Sess *s : w.sess)
			sim_join(s->tid);
	}
	sim_event("attack over after %llu ms", (unsigned long long) ((sim_now_ns() - t_attack) / MS));

	// --- afterwards: control still there and working, a newcomer is served
	if (w.has_ctl) {
		uint64_t t0 = sim_now_ns();
		if (!wait_link(&w, &w.ctl, t0, 3 * SEC, &took))
			VIOL("control_starved_after",
			    "after all hostile connections were gone the control connection completed no exchange within "
			    "%llu ms (stalls subtracted); victim %s%s over %s %s %s",
			    (unsigned long long) (took / MS), PI[w.vt].name, w.raw ? "(raw)" : "", TRN[w.tr],
			    w.vdial ? "dialing" : "listening", link_state(&w, &w.ctl, t0).c_str());
		if (w.ctl.dropped > 0)
			VIOL("control_conn_dropped",
			    "the control connection (well-behaved, established before the attack) was dropped %d time(s); "
			    "victim %s%s over %s %s",
			    w.ctl.dropped, PI[w.vt].name, w.raw ? "(raw)" : "", TRN[w.tr], w.vdial ? "dialing" : "listening");
		sim_stat("nontrivial", 1);
	}
	{
		good_open(&w, &w.late);
		uint64_t t0 = sim_now_ns();
		if (w.vdial)
			MUST(nng_listen(w.late.s, url_of(&w, 1).c_str(), NULL, 0));
		else
			good_connect(&w, &w.late, false);
		good_spawn(&w, &w.late);
		if (!wait_link(&w, &w.late, t0, 4 * SEC, &took))
			VIOL("listener_dead",
			    "%s: a well-behaved peer that %s after the attack completed no exchange within %llu ms "
			    "(stalls subtracted); victim %s%s over %s %s",
			    w.vdial ? "dialing victim" : "listening victim",
			    w.vdial ? "started listening on the address the victim dials" : "connected", (unsigned long long) (took / MS),
			    PI[w.vt].name, w.raw ? "(raw)" : "", TRN[w.tr], link_state(&w, &w.late, t0).c_str());
		sim_event("late joiner served after %llu us", (unsigned long long) (took / 1000));
		sim_stat("nontrivial", 1);
	}

	// --- stop the well-formed traffic, look for a spinning library, judge deliveries
	w.vstop = 1;
	for (int t : w.vtids)
		sim_join(t);
	good_stop(&w.late);
	if (w.has_ctl)
		good_stop(&w.ctl);
	sim_join_all();
	{
		// What the hostile peers left in the victim's socket buffers is work, not
		// spinning (50 KB read seven bytes at a time are thousands of reads): the
		// library has to fall quiet in one of several consecutive windows.
		uint64_t s0 = 0, t0 = 0, ds = 0;
		for (int win = 0; win < 6; win++) {
			s0 = sim_steps();
			t0 = sim_now_ns();
			sim_sleep_ms(10);
			ds = sim_steps() - s0;
			if (ds <= 20000)
				break;
			sim_probe("c11_busy_window_after_attack");
		}
		sim_stat("idle_steps", (int64_t) ds);
		if (ds > 20000)
			VIOL("spin",
			    "with all harness tasks stopped and all hostile connections gone the process still took %llu "
			    "scheduling points in %llu us of virtual time, 50 ms later (victim %s%s over %s)",
			    (unsigned long long) ds, (unsigned long long) ((sim_now_ns() - t0) / 1000), PI[w.vt].name,
			    w.raw ? "(raw)" : "", TRN[w.tr]);
	}
	judge_foreign(&w);
	size_t ndeliv = 0, nclose = 0;
	for (Sess *s : w.sess) {
		ndeliv += s->model.exp.size();
		nclose += s->model.must_close ? 1 : 0;
	}
	sim_stat("hostile_deliverable", (int64_t) ndeliv);
	sim_stat("hostile_must_close", (int64_t) nclose);
	sim_stat("foreign_delivered", (int64_t) w.foreign.size());

	w.late.open = false;
	w.ctl.open  = false;
	// the victim goes first: closing a peer's listener under a dialing victim makes it redial, and
	// closing a socket whose (ws) dial is failing at that instant is a C03/C10 matter, not C11's
	MUST(nng_socket_close(w.V));
	MUST(nng_socket_close(w.late.s));
	if (w.has_ctl)
		MUST(nng_socket_close(w.ctl.s));
	for (Sess *s : w.sess)
		delete s;
}

static void
sp_run(Params *p)
{
	long t = p->draw("tr", 0, 2);
	hostile_run(p, t == 0 ? X_TCP : t == 1 ? X_IPC : X_SFD);
}

static void
c11_cfg(sim_config *cfg, Params *p)
{
	cfg->max_steps = 2000000;
	long net       = p->draw("net", 0, 4);
	if (net == 1) {
		cfg->seg_mode = 3;
	} else if (net == 2) {
		cfg->seg_mode   = 2;
		cfg->seg_k      = 5;
		cfg->lat_min_ns = 10000;
		cfg->lat_max_ns = 2000000;
	} else if (net == 3) {
		cfg->seg_mode = 1;
		cfg->eagain_p = 0.05;
	} else if (net == 4) {
		cfg->seg_mode          = 3;
		cfg->conn_delay_max_ns = 3000000;
		cfg->lat_max_ns        = 500000;
		cfg->sndbuf_min        = 256;
		cfg->sndbuf_max        = 4096;
	}
}

SCENARIO(c11_sp, "C11", c11_cfg, sp_run);

static void
ws_run(Params *p)
{
	hostile_run(p, X_WS);
}
SCENARIO(c11_ws, "C11", c11_cfg, ws_run);

static void
udp_run(Params *p)
{
	hostile_run(p, X_UDP);
}
static void
c11_udp_cfg(sim_config *cfg, Params *p)
{
	(void) p;
	// no latency jitter: datagrams of one sender must stay in order for the model to be exact
	cfg->max_steps = 2000000;
}
SCENARIO(c11_udp, "C11", c11_udp_cfg, udp_run);

} // namespace
