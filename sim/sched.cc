// Serialising seeded scheduler, virtual clock, pthread/clock wrappers.
// Real pthreads are execution vehicles only: exactly one holds the baton.
#include "internal.h"

#include <errno.h>
#include <stdio.h>
#include <stdlib.h>
#include <string.h>
#include <time.h>
#include <unistd.h>

#include <map>
#include <string>
#include <vector>

extern "C" {
int __real_pthread_create(pthread_t *, const pthread_attr_t *,
    void *(*) (void *), void *);
int __real_pthread_join(pthread_t, void **);
int __real_clock_gettime(clockid_t, struct timespec *);
}

#define MAX_THR 512
#define RING 512

struct RingEv {
	uint64_t step;
	uint64_t now;
	int16_t  tid;
	int16_t  kind;
	uint32_t obj;
	uint32_t arg;
};

static struct {
	bool       active;
	sim_config cfg;
	Thr       *thr[MAX_THR];
	int        nthr;
	Thr       *cur;
	uint64_t   now;
	uint64_t   start_ns;
	uint64_t   steps;
	uint64_t   switches;
	uint64_t   stall_total;
	uint64_t   rng[SIM_RNG_NSTREAMS];
	uint64_t   trace_hash;
	uint64_t   hist_hash;
	uint64_t   sig_hash;
	uint32_t   next_mutex_id, next_cond_id;
	int64_t    low_prio;
	std::vector<uint64_t> *pct_points;
	uint64_t   run_len; // consecutive steps of cur
	RingEv     ring[RING];
	uint64_t   ring_n;
	bool       finishing;
	int        result_fd;
	std::map<std::string, int64_t> *probes, *faults_inflight, *faults_idle, *stats;
	std::vector<std::string> *samples, *events;
	std::vector<uint8_t> *decisions;
	uint64_t   time_jumps;
	char       panic_msg[256];
	const char *default_prop;
} G;

static __thread Thr *tl_self;

static const uint64_t BASE_NS = 1000ull * 1000000000ull;

// ------------------------------------------------------------------ rng ---
static inline uint64_t
splitmix(uint64_t *s)
{
	uint64_t z = (*s += 0x9e3779b97f4a7c15ull);
	z          = (z ^ (z >> 30)) * 0xbf58476d1ce4e5b9ull;
	z          = (z ^ (z >> 27)) * 0x94d049bb133111ebull;
	return z ^ (z >> 31);
}

struct Choice {
	std::vector<uint64_t> *replay;
	size_t                 pos;
	std::vector<uint64_t> *rec;
};
static Choice CH[SIM_RNG_NSTREAMS];
static bool   seeded;

static inline bool
recorded_stream(int s)
{
	return s == SIM_RNG_WORK || s == SIM_RNG_FAULT;
}

extern "C" void
sim_seed(uint64_t seed)
{
	for (int i = 0; i < SIM_RNG_NSTREAMS; i++) {
		uint64_t s = seed * 0x9e3779b97f4a7c15ull +
		    (uint64_t) (i + 1) * 0xd1b54a32d192ed03ull;
		splitmix(&s);
		G.rng[i] = splitmix(&s);
		if (recorded_stream(i) && CH[i].rec == NULL)
			CH[i].rec = new std::vector<uint64_t>();
	}
	seeded = true;
}

extern "C" void
sim_replay_load(int stream, const uint64_t *vals, size_t n)
{
	CH[stream].replay = new std::vector<uint64_t>(vals, vals + n);
	CH[stream].pos    = 0;
}

extern "C" size_t
sim_record_get(int stream, const uint64_t **vals)
{
	if (CH[stream].rec == NULL) {
		*vals = NULL;
		return 0;
	}
	*vals = CH[stream].rec->data();
	return CH[stream].rec->size();
}

// one recorded bounded draw in [0, span]; span == UINT64_MAX for raw
static uint64_t
draw(int stream, uint64_t span)
{
	uint64_t v;
	Choice  &c = CH[stream];
	if (c.replay != NULL) {
		v = c.pos < c.replay->size() ? (*c.replay)[c.pos] : 0;
		c.pos++;
		if (span != UINT64_MAX)
			v %= (span + 1);
	} else {
		v = splitmix(&G.rng[stream]);
		if (span != UINT64_MAX)
			v %= (span + 1);
	}
	if (c.rec != NULL && c.rec->size() < 200000)
		c.rec->push_back(v);
	return v;
}

extern "C" uint64_t
sim_rand(int stream)
{
	if (recorded_stream(stream))
		return draw(stream, UINT64_MAX);
	return splitmix(&G.rng[stream]);
}
extern "C" uint64_t
sim_rand_range(int stream, uint64_t lo, uint64_t hi)
{
	if (hi <= lo)
		return lo;
	if (recorded_stream(stream))
		return lo + draw(stream, hi - lo);
	return lo + splitmix(&G.rng[stream]) % (hi - lo + 1);
}
extern "C" double
sim_rand_unit(int stream)
{
	return (double) (sim_rand(stream) >> 11) / (double) (1ull << 53);
}
extern "C" int
sim_rand_chance(int stream, double p)
{
	if (p <= 0)
		return 0;
	if (recorded_stream(stream)) {
		Choice &c = CH[stream];
		int     r;
		if (c.replay != NULL) {
			r = c.pos < c.replay->size() ? (*c.replay)[c.pos] != 0 : 0;
			c.pos++;
		} else {
			r = ((double) (splitmix(&G.rng[stream]) >> 11) /
			        (double) (1ull << 53)) < p;
		}
		if (c.rec != NULL && c.rec->size() < 200000)
			c.rec->push_back((uint64_t) r);
		return r;
	}
	return sim_rand_unit(stream) < p;
}

// --------------------------------------------------------------- config ---
extern "C" void
sim_config_default(sim_config *c)
{
	memset(c, 0, sizeof(*c));
	c->seed            = 1;
	c->strategy        = 0;
	c->switch_p        = 0.1;
	c->pct_depth       = 3;
	c->pct_len         = 20000;
	c->max_steps       = 400000;
	c->max_virtual_ns  = 600ull * 1000000000ull;
	c->clock_cost_ns   = 20000;
	c->step_cost_ns    = 200;
	c->slack_max_ns    = 1500000;
	c->stall_p         = 0;
	c->stall_max_ns    = 20000000;
	c->spurious_wake_p = 0;
	c->eintr_p         = 0;
	c->epoll_partial_p = 0;
	c->seg_mode        = 0;
	c->seg_k           = 16;
	c->eagain_p        = 0;
	c->lat_min_ns      = 0;
	c->lat_max_ns      = 0;
	c->sndbuf_min      = 65536;
	c->sndbuf_max      = 65536;
	c->conn_delay_max_ns = 0;
	c->accept_err_p    = 0;
	c->unix_backlog_full_p = 0;
	c->fail_alloc_k    = 0;
	c->fail_alloc_p    = 0;
	c->trace_level     = 1;
}

const sim_config *
sim_cfg(void)
{
	return &G.cfg;
}
Thr *
sim_cur(void)
{
	return G.cur;
}
bool
sim_active(void)
{
	return G.active && tl_self != NULL && !G.finishing;
}
const char *
sim_default_prop(void)
{
	return G.default_prop ? G.default_prop : "C03";
}
extern "C" void
sim_set_default_prop(const char *p)
{
	G.default_prop = p;
}

// ---------------------------------------------------------------- trace ---
static inline void
fold(uint64_t *h, uint64_t v)
{
	*h ^= v;
	*h *= 0x100000001b3ull;
}

void
sched_trace(int kind, uint32_t obj, uint32_t arg)
{
	int tid = G.cur ? G.cur->id : -1;
	fold(&G.trace_hash,
	    ((uint64_t) kind << 48) ^ ((uint64_t) (tid + 1) << 32) ^ obj);
	fold(&G.trace_hash, arg ^ (G.steps << 20));
	RingEv &e = G.ring[G.ring_n++ % RING];
	e.step    = G.steps;
	e.now     = G.now;
	e.tid     = (int16_t) tid;
	e.kind    = (int16_t) kind;
	e.obj     = obj;
	e.arg     = arg;
}

extern "C" void
sim_hist(uint64_t a, uint64_t b)
{
	fold(&G.hist_hash, a);
	fold(&G.hist_hash, b);
}

extern "C" void
sim_event(const char *fmt, ...)
{
	if (!G.events)
		return;
	char    buf[512];
	va_list ap;
	va_start(ap, fmt);
	vsnprintf(buf, sizeof(buf), fmt, ap);
	va_end(ap);
	// history hash covers harness-visible events
	uint64_t h = 1469598103934665603ull;
	for (char *p = buf; *p; p++)
		fold(&h, (uint8_t) *p);
	fold(&G.hist_hash, h);
	if (G.cfg.trace_level >= 1 && G.events->size() < 20000) {
		char pre[64];
		snprintf(pre, sizeof(pre), "%.6f t%d ",
		    (double) (G.now - BASE_NS) / 1e9, G.cur ? G.cur->id : -1);
		G.events->push_back(std::string(pre) + buf);
	}
}

// diagnostics only: recorded at trace_level >= 4, never hashed
extern "C" void
sim_debug(const char *fmt, ...)
{
	if (!G.events || G.cfg.trace_level < 4 || G.events->size() >= 20000)
		return;
	char    buf[512];
	va_list ap;
	va_start(ap, fmt);
	vsnprintf(buf, sizeof(buf), fmt, ap);
	va_end(ap);
	char pre[64];
	snprintf(pre, sizeof(pre), "%.6f t%d # ", (double) (G.now - BASE_NS) / 1e9,
	    G.cur ? G.cur->id : -1);
	G.events->push_back(std::string(pre) + buf);
}

extern "C" void
sim_probe(const char *name)
{
	if (G.probes)
		(*G.probes)[name]++;
}
extern "C" void
sim_stat(const char *name, int64_t add)
{
	if (G.stats)
		(*G.stats)[name] += add;
}
extern "C" void
sim_fault_fired(const char *kind, int in_flight)
{
	if (!G.faults_inflight)
		return;
	if (in_flight)
		(*G.faults_inflight)[kind]++;
	else
		(*G.faults_idle)[kind]++;
}
extern "C" void
sim_sample(const char *fmt, ...)
{
	if (!G.samples || G.samples->size() >= 8)
		return;
	char    buf[2048];
	va_list ap;
	va_start(ap, fmt);
	vsnprintf(buf, sizeof(buf), fmt, ap);
	va_end(ap);
	G.samples->push_back(buf);
}
extern "C" uint64_t
sim_steps(void)
{
	return G.steps;
}

// ---------------------------------------------------------------- clock ---
uint64_t
clk_now(void)
{
	return G.now;
}
void
clk_cost(uint64_t ns)
{
	G.now += ns;
}
extern "C" uint64_t
sim_now_ns(void)
{
	return G.now;
}
extern "C" uint64_t
sim_now_ms(void)
{
	return G.now / 1000000ull;
}
extern "C" uint64_t
sim_stall_total_ns(void)
{
	return G.stall_total;
}
extern "C" uint64_t
sim_block_count(void)
{
	return tl_self ? tl_self->nblocks : 0;
}

// --------------------------------------------------------------- output ---
static void
json_escape(std::string &out, const char *s)
{
	for (; *s; s++) {
		unsigned char c = (unsigned char) *s;
		if (c == '"' || c == '\\') {
			out += '\\';
			out += (char) c;
		} else if (c == '\n') {
			out += "\\n";
		} else if (c < 0x20 || c >= 0x7f) {
			char b[8];
			snprintf(b, sizeof(b), "\\u%04x", c);
			out += b;
		} else {
			out += (char) c;
		}
	}
}

void
out_json_kv(std::string &s, const char *k, const char *v)
{
	s += "\"";
	s += k;
	s += "\":\"";
	json_escape(s, v);
	s += "\"";
}

static void
out_map(std::string &s, const char *k, std::map<std::string, int64_t> *m)
{
	s += ",\"";
	s += k;
	s += "\":{";
	bool first = true;
	if (m)
		for (auto &kv : *m) {
			if (!first)
				s += ",";
			first = false;
			s += "\"";
			json_escape(s, kv.first.c_str());
			s += "\":";
			s += std::to_string(kv.second);
		}
	s += "}";
}

static const char *kind_names[] = { "?", "yield", "mlock", "munlock", "cwait",
	"csignal", "cbcast", "tcreate", "tjoin", "texit", "atomic", "clock",
	"sleep", "syscall", "switch", "time", "stall", "alloc", "harness" };

static const char *st_names[] = { "run", "mutex", "cv", "join", "sleep",
	"epoll", "io", "flag", "quiesce", "done" };

static std::string
describe_threads(void)
{
	std::string s;
	for (int i = 0; i < G.nthr; i++) {
		Thr *t = G.thr[i];
		if (t->done)
			continue;
		char b[256];
		if (t->st == ST_MUTEX) {
			SMutex *m = (SMutex *) t->wobj;
			snprintf(b, sizeof(b), "t%d(%s):mutex#%u owner=t%d%s; ",
			    t->id, t->name, m->id, m->owner - 1,
			    t->from_cv ? " (after cv)" : "");
		} else if (t->st == ST_CV) {
			SCond *c = (SCond *) t->wobj;
			snprintf(b, sizeof(b), "t%d(%s):cv#%u%s; ", t->id,
			    t->name, c->id,
			    t->deadline == NO_DEADLINE ? "" : " timed");
		} else if (t->st == ST_JOIN) {
			snprintf(b, sizeof(b), "t%d(%s):join t%d; ", t->id,
			    t->name, t->join_target);
		} else if (t->st == ST_IO || t->st == ST_EPOLL) {
			char d[96];
			net_describe_fd(t->fd, d, sizeof(d));
			snprintf(b, sizeof(b), "t%d(%s):%s fd%d dir%d %s; ",
			    t->id, t->name, st_names[t->st], t->fd, t->dir, d);
		} else {
			snprintf(b, sizeof(b), "t%d(%s):%s; ", t->id, t->name,
			    st_names[t->st]);
		}
		s += b;
	}
	return s;
}

void
sim_finish_with(const char *status, const char *prop, const char *cls,
    const char *detail)
{
	G.finishing = true;
	std::string s = "{";
	out_json_kv(s, "status", status);
	s += ",";
	out_json_kv(s, "prop", prop ? prop : "");
	s += ",";
	out_json_kv(s, "class", cls ? cls : "");
	s += ",";
	out_json_kv(s, "detail", detail ? detail : "");
	char b[512];
	snprintf(b, sizeof(b),
	    ",\"seed\":%llu,\"steps\":%llu,\"switches\":%llu,\"vtime_ns\":%llu,"
	    "\"stall_ns\":%llu,\"time_jumps\":%llu,\"threads\":%d,"
	    "\"trace_hash\":\"%016llx\",\"hist_hash\":\"%016llx\","
	    "\"sig_hash\":\"%016llx\",\"allocs\":%lld,\"alloc_fault_hit\":%d",
	    (unsigned long long) G.cfg.seed, (unsigned long long) G.steps,
	    (unsigned long long) G.switches,
	    (unsigned long long) (G.now - G.start_ns),
	    (unsigned long long) G.stall_total,
	    (unsigned long long) G.time_jumps, G.nthr,
	    (unsigned long long) G.trace_hash,
	    (unsigned long long) G.hist_hash, (unsigned long long) G.sig_hash,
	    (long long) sim_alloc_count(), sim_alloc_fault_hit());
	s += b;
	out_map(s, "probes", G.probes);
	out_map(s, "faults_inflight", G.faults_inflight);
	out_map(s, "faults_idle", G.faults_idle);
	out_map(s, "stats", G.stats);
	s += ",\"samples\":[";
	if (G.samples)
		for (size_t i = 0; i < G.samples->size(); i++) {
			if (i)
				s += ",";
			s += "\"";
			json_escape(s, (*G.samples)[i].c_str());
			s += "\"";
		}
	s += "]";
	bool bad = strcmp(status, "ok") != 0;
	if (bad || G.cfg.record_decisions) {
		static const char *nm[2] = { "work", "fault" };
		static const int   st[2] = { SIM_RNG_WORK, SIM_RNG_FAULT };
		for (int k = 0; k < 2; k++) {
			s += ",\"";
			s += nm[k];
			s += "\":[";
			if (CH[st[k]].rec)
				for (size_t i = 0; i < CH[st[k]].rec->size(); i++) {
					if (i)
						s += ",";
					s += std::to_string((*CH[st[k]].rec)[i]);
				}
			s += "]";
		}
	}
	if (bad || G.cfg.trace_level >= 3) {
		s += ",\"events\":[";
		if (G.events) {
			size_t n0 = G.events->size() > 300 && !(G.cfg.trace_level >= 3)
			    ? G.events->size() - 200
			    : 0;
			for (size_t i = n0; i < G.events->size(); i++) {
				if (i > n0)
					s += ",";
				s += "\"";
				json_escape(s, (*G.events)[i].c_str());
				s += "\"";
			}
		}
		s += "]";
		s += ",\"trace_tail\":[";
		uint64_t n  = G.ring_n < RING ? G.ring_n : RING;
		uint64_t st = G.ring_n - n;
		uint64_t lim = n > 120 ? 120 : n;
		for (uint64_t i = G.ring_n - lim; i < G.ring_n; i++) {
			RingEv &e = G.ring[i % RING];
			snprintf(b, sizeof(b), "%s\"%llu t%d %s #%u %u\"",
			    i > G.ring_n - lim ? "," : "",
			    (unsigned long long) e.step, e.tid,
			    e.kind < 19 ? kind_names[e.kind] : "?", e.obj,
			    e.arg);
			s += b;
		}
		(void) st;
		s += "]";
		s += ",";
		out_json_kv(s, "threads_state", describe_threads().c_str());
	}
	s += "}\n";
	size_t off = 0;
	while (off < s.size()) {
		ssize_t n = write(G.result_fd, s.data() + off, s.size() - off);
		if (n <= 0)
			break;
		off += n;
	}
	_exit(0);
}

void
sim_vviolation(const char *prop, const char *cls, const char *fmt, va_list ap)
{
	char buf[1024];
	vsnprintf(buf, sizeof(buf), fmt, ap);
	sim_finish_with("violation", prop ? prop : sim_default_prop(), cls, buf);
}

extern "C" void
sim_violation(const char *prop, const char *cls, const char *fmt, ...)
{
	va_list ap;
	va_start(ap, fmt);
	if (getenv("SIM_DUMP_NET") != NULL) { // debugging aid: state of the simulated sockets
		extern void simnet_dump(void);
		simnet_dump();
	}
	sim_vviolation(prop, cls, fmt, ap);
}

extern "C" void
sim_inconclusive(const char *fmt, ...)
{
	char    buf[512];
	va_list ap;
	va_start(ap, fmt);
	vsnprintf(buf, sizeof(buf), fmt, ap);
	va_end(ap);
	sim_finish_with("inconclusive", "", "budget", buf);
}

extern "C" void
sim_finish(void)
{
	sim_finish_with("ok", "", "", "");
}

// ------------------------------------------------------------ scheduler ---
static void
real_sem_wait(sem_t *s)
{
	while (sem_wait(s) != 0 && errno == EINTR) {
	}
}

static bool
thr_enabled(Thr *t)
{
	switch (t->st) {
	case ST_RUN:
		return true;
	case ST_CV:
		if (t->deadline <= G.now) {
			t->st       = ST_MUTEX;
			t->wobj     = t->wmtx;
			t->timedout = true;
			t->from_cv  = true;
			return ((SMutex *) t->wobj)->owner == 0;
		}
		return false;
	case ST_MUTEX:
		return ((SMutex *) t->wobj)->owner == 0;
	case ST_JOIN:
		return G.thr[t->join_target]->done;
	case ST_SLEEP:
		return t->deadline <= G.now;
	case ST_EPOLL:
		return t->deadline <= G.now || net_epoll_ready(t->fd);
	case ST_IO:
		return t->deadline <= G.now || net_fd_ready(t->fd, t->dir);
	case ST_FLAG:
		return t->deadline <= G.now || *(volatile int *) t->wobj != 0;
	default:
		return false;
	}
}

// make a picked thread runnable: perform its unblocking action
static inline void
held_add(Thr *t, unsigned id)
{
	if (t->nheld < 24)
		t->held[t->nheld++] = id;
}
static inline void
held_del(Thr *t, unsigned id)
{
	for (int i = t->nheld - 1; i >= 0; i--)
		if (t->held[i] == id) {
			t->held[i] = t->held[--t->nheld];
			return;
		}
}

// lockset monitors: which mutexes does the calling thread own right now?
extern "C" int
sim_held_mutexes(unsigned *out, int max)
{
	Thr *t = tl_self;
	if (t == NULL)
		return -1;
	int n = t->nheld < max ? t->nheld : max;
	for (int i = 0; i < n; i++)
		out[i] = t->held[i];
	return n;
}
extern "C" int
sim_self_tid(void)
{
	return tl_self ? tl_self->id : -1;
}

static void
thr_unblock(Thr *t)
{
	switch (t->st) {
	case ST_MUTEX:
		((SMutex *) t->wobj)->owner = t->id + 1;
		held_add(t, ((SMutex *) t->wobj)->id);
		break;
	case ST_SLEEP:
	case ST_EPOLL:
	case ST_IO:
	case ST_FLAG:
		t->timedout = t->deadline <= G.now;
		break;
	default:
		break;
	}
	t->st       = ST_RUN;
	t->deadline = NO_DEADLINE;
}

static uint64_t
next_deadline(bool *is_thread)
{
	uint64_t best = NO_DEADLINE;
	*is_thread    = false;
	for (int i = 0; i < G.nthr; i++) {
		Thr *t = G.thr[i];
		if (t->done || t->st == ST_RUN || t->st == ST_QUIESCE)
			continue;
		if (t->deadline < best) {
			best       = t->deadline;
			*is_thread = true;
		}
	}
	uint64_t ne = net_next_event();
	if (ne < best) {
		best       = ne;
		*is_thread = false;
	}
	return best;
}

static void
budget_exhausted(const char *what)
{
	char b[256];
	snprintf(b, sizeof(b), "%s: steps=%llu vtime=%.3fs jumps=%llu", what,
	    (unsigned long long) G.steps, (double) (G.now - G.start_ns) / 1e9,
	    (unsigned long long) G.time_jumps);
	sim_finish_with("inconclusive", "", "budget", b);
}

static Thr *
choose(Thr **en, int n)
{
	if (n == 1)
		return en[0];
	switch (G.cfg.strategy) {
	case 1: { // PCT
		Thr *best = en[0];
		for (int i = 1; i < n; i++)
			if (en[i]->prio > best->prio)
				best = en[i];
		return best;
	}
	case 2: { // near natural: keep current, else lowest id
		for (int i = 0; i < n; i++)
			if (en[i] == G.cur)
				return en[i];
		return en[0];
	}
	default:
		return en[sim_rand(SIM_RNG_SCHED) % (uint64_t) n];
	}
}

// Pick the next thread to run (may advance virtual time).  Never returns
// NULL: deadlock ends the run.
static Thr *
pick_next(void)
{
	for (;;) {
		net_process_due(G.now);
		Thr *en[MAX_THR];
		int  n = 0;
		for (int i = 0; i < G.nthr; i++) {
			Thr *t = G.thr[i];
			if (!t->done && thr_enabled(t))
				en[n++] = t;
		}
		if (n > 0)
			return choose(en, n);

		bool     is_thr;
		uint64_t nd = next_deadline(&is_thr);
		// quiescers
		Thr *q = NULL;
		for (int i = 0; i < G.nthr; i++) {
			Thr *t = G.thr[i];
			if (!t->done && t->st == ST_QUIESCE) {
				if (nd == NO_DEADLINE || nd > G.now + t->horizon) {
					q = t;
					break;
				}
			}
		}
		if (q != NULL) {
			q->st = ST_RUN;
			return q;
		}
		if (nd == NO_DEADLINE) {
			std::string d = describe_threads();
			// where the application threads are stuck (symbolised by the driver)
			for (int i = 0; i < G.nthr; i++) {
				Thr *t = G.thr[i];
				if (t->done || (t->st != ST_CV && t->st != ST_MUTEX) || strncmp(t->name, "nng:", 4) == 0)
					continue;
				char   site[200];
				size_t o = (size_t) snprintf(site, sizeof(site), " [t%d at ", t->id);
				for (int k = 0; k < 6 && t->wsite[k] != NULL && o + 24 < sizeof(site); k++)
					o += (size_t) snprintf(site + o, sizeof(site) - o, "%s%p", k ? "<" : "", t->wsite[k]);
				d += site;
				d += "]";
			}
			sim_finish_with("violation", sim_default_prop(),
			    "deadlock", d.c_str());
		}
		if (nd > G.now) {
			G.now = nd;
		}
		if (is_thr) {
			G.now += 1 +
			    sim_rand_range(SIM_RNG_SCHED, 0, G.cfg.slack_max_ns);
		}
		G.time_jumps++;
		sched_trace(EV_TIME, 0, (uint32_t) ((G.now - BASE_NS) / 1000));
		if (G.now - G.start_ns > G.cfg.max_virtual_ns)
			budget_exhausted("max_virtual");
	}
}

static void
switch_to(Thr *next)
{
	Thr *self = tl_self;
	if (next == self) {
		if (self->st != ST_RUN)
			thr_unblock(self);
		return;
	}
	if (next->st != ST_RUN)
		thr_unblock(next);
	G.switches++;
	fold(&G.sig_hash,
	    ((uint64_t) self->role << 8) ^ (uint64_t) next->role ^
	        ((uint64_t) self->st << 16));
	G.cur     = next;
	G.run_len = 0;
	sched_trace(EV_SWITCH, (uint32_t) next->id, 0);
	// decide before handing over: once `next` runs it may mark this thread
	// done (sim_kill_daemons) while the OS still has it between the two lines
	bool exiting = self->done;
	sem_post(&next->sem);
	if (exiting)
		return;
	real_sem_wait(&self->sem);
}

static void
pct_maybe_change(void)
{
	if (G.cfg.strategy != 1)
		return;
	std::vector<uint64_t> &pts = *G.pct_points;
	for (size_t i = 0; i < pts.size(); i++) {
		if (pts[i] == G.steps) {
			G.cur->prio = --G.low_prio;
		}
	}
	if (G.run_len > 50000) {
		// starvation valve: a thread spinning without blocking
		G.cur->prio = --G.low_prio;
		G.run_len   = 0;
		sim_probe("pct_starvation_valve");
	}
}

void
sched_demote_self(void)
{
	if (G.cfg.strategy == 1 && G.cur)
		G.cur->prio = --G.low_prio;
}

void
sched_point(int kind, uint32_t obj, uint32_t arg)
{
	if (!sim_active())
		return;
	G.steps++;
	G.run_len++;
	G.now += G.cfg.step_cost_ns;
	sched_trace(kind, obj, arg);
	if (G.steps > G.cfg.max_steps)
		budget_exhausted("max_steps");
	if (G.cfg.stall_p > 0 && sim_rand_chance(SIM_RNG_BUG, G.cfg.stall_p)) {
		uint64_t d =
		    sim_rand_range(SIM_RNG_BUG, 100000, G.cfg.stall_max_ns);
		G.now += d;
		G.stall_total += d;
		sim_fault_fired("stall", 1);
		sched_trace(EV_STALL, 0, (uint32_t) (d / 1000));
	}
	switch (G.cfg.strategy) {
	case 0:
		if (!sim_rand_chance(SIM_RNG_SCHED, G.cfg.switch_p))
			return;
		break;
	case 1:
		pct_maybe_change();
		break;
	case 2:
		return;
	}
	switch_to(pick_next());
}

void
sched_block(Thr *t)
{
	// caller has set t->st (!= ST_RUN) and the wait parameters
	t->nblocks++;
	G.steps++;
	G.now += G.cfg.step_cost_ns;
	if (G.steps > G.cfg.max_steps)
		budget_exhausted("max_steps");
	if (G.cfg.strategy == 1)
		pct_maybe_change();
	switch_to(pick_next());
}

// --------------------------------------------------------------- threads ---
static int
role_of(const char *name)
{
	if (!strncmp(name, "nng:task", 8))
		return 2;
	if (!strncmp(name, "nng:aio", 7))
		return 3;
	if (!strncmp(name, "nng:poll", 8))
		return 4;
	if (!strncmp(name, "nng:resol", 9))
		return 5;
	if (!strncmp(name, "nng:reap", 8))
		return 6;
	return 7;
}

static Thr *
thr_new(const char *name)
{
	if (G.nthr >= MAX_THR) {
		sim_finish_with("inconclusive", "", "budget", "too many threads");
	}
	Thr *t = (Thr *) calloc(1, sizeof(Thr));
	t->id       = G.nthr;
	t->st       = ST_RUN;
	t->deadline = NO_DEADLINE;
	sem_init(&t->sem, 0, 0);
	snprintf(t->name, sizeof(t->name), "%s", name);
	t->role = 7;
	if (G.cfg.strategy == 1)
		t->prio = (int64_t) (sim_rand(SIM_RNG_SCHED) >> 2);
	G.thr[G.nthr++] = t;
	return t;
}

static void *
trampoline(void *arg)
{
	Thr *t  = (Thr *) arg;
	tl_self = t;
	real_sem_wait(&t->sem);
	t->started = true;
	void *ret  = t->start(t->arg);
	t->ret     = ret;
	// exit: hand over the baton
	sched_trace(EV_TEXIT, (uint32_t) t->id, 0);
	t->done = true;
	t->st   = ST_DONE;
	G.steps++;
	switch_to(pick_next());
	return ret;
}

extern "C" int
__wrap_pthread_create(pthread_t *th, const pthread_attr_t *attr,
    void *(*start)(void *), void *arg)
{
	if (!sim_active())
		return __real_pthread_create(th, attr, start, arg);
	Thr *t   = thr_new("thr");
	t->start = start;
	t->arg   = arg;
	pthread_attr_t a;
	pthread_attr_init(&a);
	pthread_attr_setstacksize(&a, 512 * 1024);
	int rv = __real_pthread_create(&t->real, &a, trampoline, t);
	pthread_attr_destroy(&a);
	if (rv != 0) {
		t->done = true;
		t->st   = ST_DONE;
		return rv;
	}
	*th = t->real;
	sched_point(EV_TCREATE, (uint32_t) t->id, 0);
	return 0;
}

static Thr *
find_by_real(pthread_t p)
{
	// pthread_t values are reused once a thread has been joined, so an
	// already joined thread never matches
	for (int i = 0; i < G.nthr; i++)
		if (pthread_equal(G.thr[i]->real, p) && !G.thr[i]->daemon &&
		    !G.thr[i]->joined)
			return G.thr[i];
	for (int i = 0; i < G.nthr; i++)
		if (pthread_equal(G.thr[i]->real, p) && !G.thr[i]->joined)
			return G.thr[i];
	return NULL;
}

extern "C" int
__wrap_pthread_join(pthread_t p, void **ret)
{
	if (!sim_active())
		return __real_pthread_join(p, ret);
	Thr *t    = find_by_real(p);
	Thr *self = tl_self;
	if (t == NULL)
		return ESRCH;
	sched_trace(EV_TJOIN, (uint32_t) t->id, 0);
	if (!t->done) {
		self->st          = ST_JOIN;
		self->join_target = t->id;
		sched_block(self);
	}
	t->joined = true;
	return __real_pthread_join(p, ret);
}

// pthread_setname_np: used by nng to name its threads; gives us roles
extern "C" int __real_pthread_setname_np(pthread_t, const char *);
extern "C" int
__wrap_pthread_setname_np(pthread_t p, const char *name)
{
	if (sim_active()) {
		Thr *t = pthread_equal(p, pthread_self()) ? tl_self
		                                          : find_by_real(p);
		if (t != NULL) {
			snprintf(t->name, sizeof(t->name), "%s", name);
			t->role = role_of(name);
		}
	}
	return 0;
}

// ---------------------------------------------------------------- mutex ---
static inline SMutex *
mtx_of(pthread_mutex_t *m)
{
	SMutex *s = (SMutex *) m;
	if (s->magic != SMUTEX_MAGIC) {
		s->magic = SMUTEX_MAGIC;
		s->id    = ++G.next_mutex_id;
		s->owner = 0;
	}
	return s;
}
static inline SCond *
cond_of(pthread_cond_t *c)
{
	SCond *s = (SCond *) c;
	if (s->magic != SCOND_MAGIC) {
		s->magic = SCOND_MAGIC;
		s->id    = ++G.next_cond_id;
	}
	return s;
}

extern "C" {
int __real_pthread_mutex_init(pthread_mutex_t *, const pthread_mutexattr_t *);
int __real_pthread_mutex_destroy(pthread_mutex_t *);
int __real_pthread_mutex_lock(pthread_mutex_t *);
int __real_pthread_mutex_unlock(pthread_mutex_t *);
int __real_pthread_cond_init(pthread_cond_t *, const pthread_condattr_t *);
int __real_pthread_cond_destroy(pthread_cond_t *);
int __real_pthread_cond_wait(pthread_cond_t *, pthread_mutex_t *);
int __real_pthread_cond_timedwait(pthread_cond_t *, pthread_mutex_t *,
    const struct timespec *);
int __real_pthread_cond_signal(pthread_cond_t *);
int __real_pthread_cond_broadcast(pthread_cond_t *);
int __real_nanosleep(const struct timespec *, struct timespec *);

int
__wrap_pthread_mutex_init(pthread_mutex_t *m, const pthread_mutexattr_t *a)
{
	if (!G.active)
		return __real_pthread_mutex_init(m, a);
	memset(m, 0, sizeof(*m));
	mtx_of(m);
	return 0;
}

int
__wrap_pthread_mutex_destroy(pthread_mutex_t *m)
{
	if (!G.active)
		return __real_pthread_mutex_destroy(m);
	SMutex *s = (SMutex *) m;
	if (s->magic == SMUTEX_MAGIC && s->owner != 0 && sim_active()) {
		// destroying a locked mutex: undefined behaviour in POSIX
		char   site[120];
		size_t o  = 0;
		Thr   *ow = NULL;
		site[0]   = 0;
		for (int i = 0; i < G.nthr; i++)
			if (G.thr[i]->id == s->owner - 1)
				ow = G.thr[i];
		if (ow != NULL)
			for (unsigned k = 0; k < 4; k++) {
				auto &h = ow->hsite[(ow->nhsite - 1 - k) % 4];
				if (h.id != s->id || k >= ow->nhsite)
					continue;
				for (int f = 0; f < 4 && h.site[f] != NULL && o + 24 < sizeof(site); f++)
					o += (size_t) snprintf(site + o, sizeof(site) - o, "%s%p", f ? "<" : "", h.site[f]);
				break;
			}
		sim_violation(NULL, "mutex_destroy_locked",
		    "mutex #%u destroyed by %s while owned by t%d %s (locked at %s)", s->id,
		    tl_self ? tl_self->name : "?", s->owner - 1, ow ? ow->name : "?", site);
	}
	// is anyone waiting on it?
	if (sim_active())
		for (int i = 0; i < G.nthr; i++) {
			Thr *t = G.thr[i];
			if (!t->done && ((t->st == ST_MUTEX && t->wobj == s) ||
			                    (t->st == ST_CV && t->wmtx == s)))
			{
				char   site[160];
				size_t o = 0;
				site[0]  = 0;
				for (int k = 0; k < 6 && t->wsite[k] != NULL && o + 24 < sizeof(site); k++)
					o += (size_t) snprintf(site + o, sizeof(site) - o, "%s%p", k ? "<" : "", t->wsite[k]);
				sim_violation(NULL, "mutex_destroy_waited",
				    "mutex #%u destroyed by %s while %s waits for it (waiter at %s)",
				    s->id, tl_self ? tl_self->name : "?", t->name, site);
			}
		}
	memset(m, 0, sizeof(*m));
	return 0;
}

int
__wrap_pthread_mutex_lock(pthread_mutex_t *m)
{
	if (!sim_active())
		return G.active ? 0 : __real_pthread_mutex_lock(m);
	SMutex *s    = mtx_of(m);
	Thr    *self = tl_self;
	sched_point(EV_MLOCK, s->id, 0);
	if (s->owner == self->id + 1)
		return EDEADLK;
	{
		auto &h = self->hsite[self->nhsite++ % 4];
		h.id    = s->id;
		sim_fp_walk(h.site, 4, 1);
	}
	if (s->owner == 0) {
		s->owner = self->id + 1;
		held_add(self, s->id);
		return 0;
	}
	self->st      = ST_MUTEX;
	self->wobj    = s;
	self->from_cv = false;
	sim_fp_walk(self->wsite, 6, 1);
	sched_block(self);
	// thr_unblock acquired it for us
	return 0;
}

int
__wrap_pthread_mutex_unlock(pthread_mutex_t *m)
{
	if (!sim_active())
		return G.active ? 0 : __real_pthread_mutex_unlock(m);
	SMutex *s    = mtx_of(m);
	Thr    *self = tl_self;
	if (s->owner != self->id + 1)
		return EPERM;
	s->owner = 0;
	held_del(self, s->id);
	sched_point(EV_MUNLOCK, s->id, 0);
	return 0;
}

int
__wrap_pthread_cond_init(pthread_cond_t *c, const pthread_condattr_t *a)
{
	if (!G.active)
		return __real_pthread_cond_init(c, a);
	memset(c, 0, sizeof(*c));
	cond_of(c);
	return 0;
}

int
__wrap_pthread_cond_destroy(pthread_cond_t *c)
{
	if (!G.active)
		return __real_pthread_cond_destroy(c);
	SCond *s = (SCond *) c;
	if (sim_active())
		for (int i = 0; i < G.nthr; i++) {
			Thr *t = G.thr[i];
			if (!t->done && t->st == ST_CV && t->wobj == s)
				sim_violation(NULL, "cond_destroy_waited",
				    "cv #%u destroyed while t%d waits", s->id,
				    t->id);
		}
	memset(c, 0, sizeof(*c));
	return 0;
}

static int
cond_wait_common(pthread_cond_t *c, pthread_mutex_t *m, uint64_t deadline)
{
	SCond  *sc   = cond_of(c);
	SMutex *sm   = mtx_of(m);
	Thr    *self = tl_self;
	if (sm->owner != self->id + 1)
		return EPERM;
	sched_trace(EV_CWAIT, sc->id, sm->id);
	sm->owner      = 0;
	held_del(self, sm->id);
	self->timedout = false;
	sim_fp_walk(self->wsite, 6, 1);
	if (G.cfg.spurious_wake_p > 0 &&
	    sim_rand_chance(SIM_RNG_BUG, G.cfg.spurious_wake_p)) {
		// spurious wake-up: go straight to re-acquiring the mutex
		sim_fault_fired("spurious_wake", 1);
		self->st      = ST_MUTEX;
		self->wobj    = sm;
		self->from_cv = true;
	} else {
		self->st       = ST_CV;
		self->wobj     = sc;
		self->wmtx     = sm;
		self->deadline = deadline;
		if (deadline != NO_DEADLINE && deadline <= G.now)
			G.now += 100000; // already expired: costs time
	}
	sched_block(self);
	return self->timedout ? ETIMEDOUT : 0;
}

int
__wrap_pthread_cond_wait(pthread_cond_t *c, pthread_mutex_t *m)
{
	if (!sim_active())
		return G.active ? 0 : __real_pthread_cond_wait(c, m);
	return cond_wait_common(c, m, NO_DEADLINE);
}

int
__wrap_pthread_cond_timedwait(pthread_cond_t *c, pthread_mutex_t *m,
    const struct timespec *ts)
{
	if (!sim_active())
		return G.active ? ETIMEDOUT
		                : __real_pthread_cond_timedwait(c, m, ts);
	uint64_t d = (uint64_t) ts->tv_sec > 4000000000ull
	    ? NO_DEADLINE
	    : (uint64_t) ts->tv_sec * 1000000000ull + (uint64_t) ts->tv_nsec;
	return cond_wait_common(c, m, d);
}

static void
wake_waiter(Thr *t)
{
	t->st       = ST_MUTEX;
	t->wobj     = t->wmtx;
	t->from_cv  = true;
	t->timedout = false;
	t->deadline = NO_DEADLINE;
}

int
__wrap_pthread_cond_signal(pthread_cond_t *c)
{
	if (!sim_active())
		return G.active ? 0 : __real_pthread_cond_signal(c);
	SCond *sc = cond_of(c);
	Thr   *w[MAX_THR];
	int    n = 0;
	for (int i = 0; i < G.nthr; i++) {
		Thr *t = G.thr[i];
		if (!t->done && t->st == ST_CV && t->wobj == sc)
			w[n++] = t;
	}
	if (n > 0) {
		Thr *t = n == 1 || G.cfg.strategy == 2
		    ? w[0]
		    : w[sim_rand(SIM_RNG_SCHED) % (uint64_t) n];
		wake_waiter(t);
	}
	sched_point(EV_CSIGNAL, sc->id, (uint32_t) n);
	return 0;
}

int
__wrap_pthread_cond_broadcast(pthread_cond_t *c)
{
	if (!sim_active())
		return G.active ? 0 : __real_pthread_cond_broadcast(c);
	SCond *sc = cond_of(c);
	int    n  = 0;
	for (int i = 0; i < G.nthr; i++) {
		Thr *t = G.thr[i];
		if (!t->done && t->st == ST_CV && t->wobj == sc) {
			wake_waiter(t);
			n++;
		}
	}
	sched_point(EV_CBCAST, sc->id, (uint32_t) n);
	return 0;
}

// ---------------------------------------------------------------- clock ---
int
__wrap_clock_gettime(clockid_t id, struct timespec *ts)
{
	if (!sim_active())
		return __real_clock_gettime(id, ts);
	G.now += G.cfg.clock_cost_ns;
	uint64_t t = G.now;
	if (id == CLOCK_REALTIME)
		t += 1700000000ull * 1000000000ull;
	ts->tv_sec  = (time_t) (t / 1000000000ull);
	ts->tv_nsec = (long) (t % 1000000000ull);
	sched_point(EV_CLOCK, 0, 0);
	return 0;
}

int
__wrap_nanosleep(const struct timespec *req, struct timespec *rem)
{
	if (!sim_active())
		return __real_nanosleep(req, rem);
	Thr     *self = tl_self;
	uint64_t d =
	    (uint64_t) req->tv_sec * 1000000000ull + (uint64_t) req->tv_nsec;
	sched_trace(EV_SLEEP, 0, (uint32_t) (d / 1000));
	self->st       = ST_SLEEP;
	self->deadline = G.now + d;
	sched_block(self);
	if (rem) {
		rem->tv_sec  = 0;
		rem->tv_nsec = 0;
	}
	return 0;
}

uint32_t
__wrap_arc4random(void)
{
	if (!G.active)
		return (uint32_t) random();
	return (uint32_t) sim_rand(SIM_RNG_LIB);
}

// panic capture
void
__wrap_nni_plat_printf(const char *fmt, ...)
{
	char    buf[256];
	va_list ap;
	va_start(ap, fmt);
	vsnprintf(buf, sizeof(buf), fmt, ap);
	va_end(ap);
	if (!strncmp(buf, "panic:", 6) && G.panic_msg[0] == 0) {
		snprintf(G.panic_msg, sizeof(G.panic_msg), "%s", buf);
		size_t n = strlen(G.panic_msg);
		if (n && G.panic_msg[n - 1] == '\n')
			G.panic_msg[n - 1] = 0;
	}
}

void
__wrap_nni_plat_abort(void)
{
	// where the panic was raised: return addresses, symbolised by the driver
	void  *site[8];
	char   msg[448];
	size_t o;
	sim_fp_walk(site, 8, 2); // skip this wrapper and nni_panic
	o = (size_t) snprintf(msg, sizeof(msg), "%s (at ", G.panic_msg[0] ? G.panic_msg : "nni_plat_abort");
	for (int k = 0; k < 8 && site[k] != NULL && o + 24 < sizeof(msg); k++)
		o += (size_t) snprintf(msg + o, sizeof(msg) - o, "%s%p", k ? "<" : "", site[k]);
	snprintf(msg + o, sizeof(msg) - o, ")");
	sim_finish_with("violation", sim_default_prop(), "panic", msg);
}

} // extern "C"

// --------------------------------------------------------- harness tasks ---
struct TaskArg {
	sim_task_fn fn;
	void       *arg;
};

static void *
task_main(void *a)
{
	TaskArg *ta = (TaskArg *) a;
	ta->fn(ta->arg);
	free(ta);
	return NULL;
}

extern "C" int
sim_spawn(const char *name, sim_task_fn fn, void *arg, int flags)
{
	TaskArg *ta = (TaskArg *) malloc(sizeof(*ta));
	ta->fn      = fn;
	ta->arg     = arg;
	pthread_t th;
	int       id = G.nthr;
	int rv = __wrap_pthread_create(&th, NULL, task_main, ta);
	if (rv != 0)
		sim_finish_with("infra", "", "spawn", "pthread_create failed");
	Thr *t     = G.thr[id];
	t->harness = true;
	t->daemon  = (flags & SIM_TASK_DAEMON) != 0;
	t->role    = 1;
	snprintf(t->name, sizeof(t->name), "%s", name);
	return id;
}

extern "C" void
sim_join(int tid)
{
	Thr *self = tl_self;
	Thr *t    = G.thr[tid];
	if (!t->done) {
		self->st          = ST_JOIN;
		self->join_target = tid;
		sched_block(self);
	}
	if (!t->joined) {
		t->joined = true;
		__real_pthread_join(t->real, NULL);
	}
}

extern "C" void
sim_join_all(void)
{
	for (int i = 0; i < G.nthr; i++) {
		Thr *t = G.thr[i];
		if (t->harness && !t->daemon && t != tl_self && !t->joined) {
			sim_join(i);
		}
	}
}

// Daemon tasks (raw peers etc.) are parked forever: they must not hold nng
// resources.  Called before the final nng_fini.
extern "C" void
sim_kill_daemons(void)
{
	for (int i = 0; i < G.nthr; i++) {
		Thr *t = G.thr[i];
		if (t->daemon && !t->done) {
			t->done = true;
			t->st   = ST_DONE;
		}
	}
}

// number of non-daemon harness tasks (other than the caller) still alive
extern "C" int
sim_live_tasks(void)
{
	int n = 0;
	for (int i = 0; i < G.nthr; i++) {
		Thr *t = G.thr[i];
		if (t->harness && !t->daemon && !t->done && t != tl_self)
			n++;
	}
	return n;
}

extern "C" int
sim_self(void)
{
	return tl_self ? tl_self->id : -1;
}

extern "C" void
sim_yield(void)
{
	sched_demote_self();
	sched_point(EV_YIELD, 0, 0);
}

extern "C" void
sim_sleep_ns(uint64_t ns)
{
	Thr *self      = tl_self;
	self->st       = ST_SLEEP;
	self->deadline = G.now + ns;
	sched_block(self);
}
extern "C" void
sim_sleep_ms(uint64_t ms)
{
	sim_sleep_ns(ms * 1000000ull);
}

extern "C" uint64_t
sim_quiesce(uint64_t horizon_ns)
{
	Thr *self     = tl_self;
	self->st      = ST_QUIESCE;
	self->horizon = horizon_ns;
	sched_block(self);
	return G.now;
}

extern "C" int
sim_wait_flag(volatile int *flag, uint64_t timeout_ns)
{
	Thr *self = tl_self;
	if (*flag)
		return 0;
	self->st       = ST_FLAG;
	self->wobj     = (void *) flag;
	self->deadline = timeout_ns ? G.now + timeout_ns : NO_DEADLINE;
	sched_block(self);
	return *flag ? 0 : -1;
}

// helpers for net.cc to block the calling thread
extern "C" int
sim_block_io(int fd, int dir, uint64_t deadline)
{
	Thr *self      = tl_self;
	self->st       = ST_IO;
	self->fd       = fd;
	self->dir      = dir;
	self->deadline = deadline;
	sched_block(self);
	return self->timedout ? -1 : 0;
}

extern "C" int
sim_block_epoll(int epfd, uint64_t deadline)
{
	Thr *self      = tl_self;
	self->st       = ST_EPOLL;
	self->fd       = epfd;
	self->deadline = deadline;
	sched_block(self);
	return self->timedout ? -1 : 0;
}

// ---------------------------------------------------------------- begin ---
extern "C" void
sim_set_result_fd(int fd)
{
	G.result_fd = fd;
}

extern "C" void __sanitizer_set_death_callback(void (*)(void));

// A sanitizer report kills the run; emit what we know (recorded choices,
// events) first so that the driver can shrink and replay it.
static void
on_sanitizer_death(void)
{
	static bool once;
	if (once || !G.active || G.finishing)
		return;
	once        = true;
	G.finishing = true;
	std::string s = "{";
	out_json_kv(s, "status", "sanitizer");
	char b[256];
	snprintf(b, sizeof(b),
	    ",\"seed\":%llu,\"steps\":%llu,\"switches\":%llu,\"vtime_ns\":%llu,"
	    "\"trace_hash\":\"%016llx\",\"hist_hash\":\"%016llx\",\"sig_hash\":\"%016llx\"",
	    (unsigned long long) G.cfg.seed, (unsigned long long) G.steps,
	    (unsigned long long) G.switches, (unsigned long long) (G.now - G.start_ns),
	    (unsigned long long) G.trace_hash, (unsigned long long) G.hist_hash,
	    (unsigned long long) G.sig_hash);
	s += b;
	static const char *nm[2] = { "work", "fault" };
	static const int   st[2] = { SIM_RNG_WORK, SIM_RNG_FAULT };
	for (int k = 0; k < 2; k++) {
		s += ",\"";
		s += nm[k];
		s += "\":[";
		if (CH[st[k]].rec)
			for (size_t i = 0; i < CH[st[k]].rec->size(); i++) {
				if (i)
					s += ",";
				s += std::to_string((*CH[st[k]].rec)[i]);
			}
		s += "]";
	}
	s += ",\"events\":[";
	if (G.events) {
		size_t n0 = G.events->size() > 300 ? G.events->size() - 300 : 0;
		for (size_t i = n0; i < G.events->size(); i++) {
			if (i > n0)
				s += ",";
			s += "\"";
			json_escape(s, (*G.events)[i].c_str());
			s += "\"";
		}
	}
	s += "]}\n";
	size_t off = 0;
	while (off < s.size()) {
		ssize_t n = write(G.result_fd, s.data() + off, s.size() - off);
		if (n <= 0)
			break;
		off += n;
	}
}

extern "C" void
sim_begin(const sim_config *cfg)
{
	__sanitizer_set_death_callback(on_sanitizer_death);
	int rfd = G.result_fd ? G.result_fd : 1;
	memset(&G.thr, 0, sizeof(G.thr));
	G.cfg       = *cfg;
	G.result_fd = rfd;
	G.nthr      = 0;
	G.now       = BASE_NS;
	G.start_ns  = BASE_NS;
	G.steps     = 0;
	G.trace_hash = 1469598103934665603ull;
	G.hist_hash  = 1469598103934665603ull;
	G.sig_hash   = 1469598103934665603ull;
	if (!seeded)
		sim_seed(cfg->seed);
	G.probes          = new std::map<std::string, int64_t>();
	G.faults_inflight = new std::map<std::string, int64_t>();
	G.faults_idle     = new std::map<std::string, int64_t>();
	G.stats           = new std::map<std::string, int64_t>();
	G.samples         = new std::vector<std::string>();
	G.events          = new std::vector<std::string>();
	G.pct_points      = new std::vector<uint64_t>();
	G.low_prio        = 0;
	G.active          = true;
	Thr *t            = thr_new("main");
	t->real           = pthread_self();
	t->harness        = true;
	t->started        = true;
	t->role           = 0;
	tl_self           = t;
	G.cur             = t;
	if (cfg->strategy == 1) {
		for (int i = 0; i < cfg->pct_depth - 1; i++)
			G.pct_points->push_back(sim_rand_range(SIM_RNG_SCHED, 1,
			    cfg->pct_len ? cfg->pct_len : 1));
	}
	net_init();
	alloc_init();
}

// list walks: nng's lists carry no lock of their own; a walk that is not
// covered by the right mutex can be overtaken by a modification at any step.
// Only some runs pay for these extra scheduling points (cfg.list_points).
extern "C" void
sim_list_point(void)
{
	if (!sim_active() || !G.cfg.list_points)
		return;
	sched_point(EV_ATOMIC, 1, 99);
}

extern "C" void
sim_atomic_point(int op, int spin)
{
	if (!sim_active())
		return;
	if (spin) {
		// failed test-and-set: caller is spinning; let others run
		sched_demote_self();
		G.now += 1000;
	}
	sched_point(EV_ATOMIC, 0, (uint32_t) op);
}
