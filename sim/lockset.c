// Lockset monitor for nni_id_map (Eraser-style).  The simulator only switches
// threads at intercepted calls, so two threads can never be *inside* an id-map
// function at once and an unprotected table never actually breaks in a run.
// What a run can show is the cause: a table that several threads use without
// a mutex in common.  Every access narrows the table's candidate lock set to
// the mutexes the calling thread holds; once a second thread has used the
// table and a modification happens with the set empty, that is reported.
// (Tables used by one thread only -- nng_id_map objects of an application that
// does its own locking -- never leave the exclusive state.)
#include <stdbool.h>
#include <stdint.h>
#include <string.h>

#include "sim.h"

int sim_held_mutexes(unsigned *out, int max);
int sim_self_tid(void);

typedef struct nni_id_map nni_id_map;
void *__real_nni_id_get(nni_id_map *, uint64_t);
int   __real_nni_id_set(nni_id_map *, uint64_t, void *);
int   __real_nni_id_alloc(nni_id_map *, uint64_t *, void *);
int   __real_nni_id_alloc32(nni_id_map *, uint32_t *, void *);
int   __real_nni_id_remove(nni_id_map *, uint64_t);
void  __real_nni_id_map_fini(nni_id_map *);
void  __real_nni_id_map_init(nni_id_map *, uint64_t, uint64_t, bool);

#define NMAPS 512
typedef struct {
	nni_id_map *map;
	int         owner;   // first thread; -2 once shared
	unsigned    ls[24];  // candidate lock set (valid once shared)
	int         nls;
	bool        reported;
} MapEnt;
static MapEnt maps[NMAPS];

static MapEnt *
find(nni_id_map *m, bool create)
{
	unsigned h = (unsigned) (((uintptr_t) m >> 4) * 2654435761u) % NMAPS;
	for (int i = 0; i < NMAPS; i++) {
		MapEnt *e = &maps[(h + (unsigned) i) % NMAPS];
		if (e->map == m)
			return e;
		if (e->map == NULL) {
			if (!create)
				return NULL;
			memset(e, 0, sizeof(*e));
			e->map   = m;
			e->owner = -1;
			return e;
		}
	}
	return NULL;
}

static void
forget(nni_id_map *m)
{
	MapEnt *e = find(m, false);
	if (e != NULL) {
		// keep the slot occupied (open addressing), but start over
		e->owner    = -1;
		e->nls      = 0;
		e->reported = false;
	}
}

static void
touch(nni_id_map *m, bool write, const char *what)
{
	int tid = sim_self_tid();
	if (tid < 0)
		return;
	MapEnt *e = find(m, true);
	if (e == NULL)
		return;
	unsigned held[24];
	int      n = sim_held_mutexes(held, 24);
	if (n < 0)
		return;
	if (e->owner == -1) {
		e->owner = tid;
		return;
	}
	if (e->owner == tid)
		return; // still exclusive
	if (e->owner != -2) {
		// second thread: the candidate set starts as what it holds now
		e->owner = -2;
		e->nls   = n;
		memcpy(e->ls, held, sizeof(unsigned) * (size_t) n);
	} else {
		int k = 0;
		for (int i = 0; i < e->nls; i++)
			for (int j = 0; j < n; j++)
				if (e->ls[i] == held[j]) {
					e->ls[k++] = e->ls[i];
					break;
				}
		e->nls = k;
	}
	if (e->nls == 0 && write && !e->reported) {
		e->reported = true;
		sim_violation(NULL, "unlocked_shared_table",
		    "an identifier table used by several threads is modified (%s) by a thread that holds none of the "
		    "mutexes the earlier users had in common (it holds %d mutex(es))",
		    what, n);
	}
}

void *
__wrap_nni_id_get(nni_id_map *m, uint64_t id)
{
	touch(m, false, "nni_id_get");
	return __real_nni_id_get(m, id);
}
int
__wrap_nni_id_set(nni_id_map *m, uint64_t id, void *v)
{
	touch(m, true, "nni_id_set");
	return __real_nni_id_set(m, id, v);
}
int
__wrap_nni_id_alloc(nni_id_map *m, uint64_t *idp, void *v)
{
	touch(m, true, "nni_id_alloc");
	return __real_nni_id_alloc(m, idp, v);
}
int
__wrap_nni_id_alloc32(nni_id_map *m, uint32_t *idp, void *v)
{
	touch(m, true, "nni_id_alloc32");
	return __real_nni_id_alloc32(m, idp, v);
}
int
__wrap_nni_id_remove(nni_id_map *m, uint64_t id)
{
	touch(m, true, "nni_id_remove");
	return __real_nni_id_remove(m, id);
}
void
__wrap_nni_id_map_fini(nni_id_map *m)
{
	forget(m);
	__real_nni_id_map_fini(m);
}
void
__wrap_nni_id_map_init(nni_id_map *m, uint64_t lo, uint64_t hi, bool randomize)
{
	forget(m);
	__real_nni_id_map_init(m, lo, hi, randomize);
}
