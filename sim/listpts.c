// link-time wrappers: nni_list_first / nni_list_next as (optional) scheduling points
#include <stddef.h>
struct nni_list;
extern void  sim_list_point(void);
extern void *__real_nni_list_first(const struct nni_list *);
extern void *__real_nni_list_next(const struct nni_list *, void *);
void *
__wrap_nni_list_first(const struct nni_list *l)
{
	sim_list_point();
	return (__real_nni_list_first(l));
}
void *
__wrap_nni_list_next(const struct nni_list *l, void *item)
{
	sim_list_point();
	return (__real_nni_list_next(l, item));
}
