// Internal interfaces between simulator translation units.
#ifndef VERIF_SIM_INTERNAL_H
#define VERIF_SIM_INTERNAL_H

#include "sim.h"
#include <pthread.h>
#include <semaphore.h>
#include <stdarg.h>
#include <stdint.h>
#include <string>
#include <vector>

#define NO_DEADLINE UINT64_MAX

enum ThrState {
	ST_RUN = 0,
	ST_MUTEX,
	ST_CV,
	ST_JOIN,
	ST_SLEEP,
	ST_EPOLL,
	ST_IO,
	ST_FLAG,
	ST_QUIESCE,
	ST_DONE
};

enum EvKind {
	EV_YIELD = 1,
	EV_MLOCK,
	EV_MUNLOCK,
	EV_CWAIT,
	EV_CSIGNAL,
	EV_CBCAST,
	EV_TCREATE,
	EV_TJOIN,
	EV_TEXIT,
	EV_ATOMIC,
	EV_CLOCK,
	EV_SLEEP,
	EV_SYSCALL,
	EV_SWITCH,
	EV_TIME,
	EV_STALL,
	EV_ALLOC,
	EV_HARNESS,
};

struct SMutex {
	uint32_t magic;
	uint32_t id;
	int32_t  owner; // tid+1, 0 = free
	uint32_t pad;
};
struct SCond {
	uint32_t magic;
	uint32_t id;
};
#define SMUTEX_MAGIC 0x53494d4du
#define SCOND_MAGIC 0x53494d43u

struct Thr {
	int      id;
	sem_t    sem;
	int      st;
	void    *wobj;     // mutex / cond / flag
	SMutex  *wmtx;     // mutex to re-acquire after cv
	uint64_t deadline;
	bool     timedout;
	bool     from_cv;
	int      join_target;
	int      fd, dir;  // ST_IO / ST_EPOLL
	uint64_t horizon;  // ST_QUIESCE
	bool     daemon, harness, done, started, joined;
	int64_t  prio;
	pthread_t real;
	void *(*start)(void *);
	void    *arg;
	void    *ret;
	char     name[32];
	uint64_t nblocks;
	void    *wsite[6]; // return addresses of the call that blocked on a mutex / condvar
	struct {
		unsigned id;
		void    *site[4];
	} hsite[4]; // call sites of the most recent mutex acquisitions (ring)
	unsigned nhsite;
	unsigned held[24]; // ids of the mutexes this thread owns
	int      nheld;
	int      role; // for switch signature: 0 main,1 harness,2 task,3 expire,4 poll,5 resolv,6 reap,7 other
};

// cheap frame-pointer walk (everything is built -fno-omit-frame-pointer)
static inline void
sim_fp_walk(void **out, int nframes, int skip)
{
	void    **fp = (void **) __builtin_frame_address(0);
	int       n  = 0;
	uintptr_t lo = (uintptr_t) fp;
	while (fp != NULL && n < nframes) {
		void **next = (void **) fp[0];
		void  *ret  = fp[1];
		if (skip > 0)
			skip--;
		else
			out[n++] = ret;
		if ((uintptr_t) next <= (uintptr_t) fp || (uintptr_t) next > lo + (1u << 20))
			break;
		fp = next;
	}
	while (n < nframes)
		out[n++] = NULL;
}

extern Thr *sim_cur(void);
extern bool sim_active(void);

// scheduling primitives
void sched_point(int kind, uint32_t obj, uint32_t arg);
void sched_block(Thr *t); // t->st etc. already set; returns when runnable
void sched_trace(int kind, uint32_t obj, uint32_t arg);
void sched_demote_self(void);

// time
uint64_t clk_now(void);
void     clk_cost(uint64_t ns);

// net hooks used by scheduler
bool     net_epoll_ready(int epfd);
bool     net_fd_ready(int fd, int dir);
uint64_t net_next_event(void);            // NO_DEADLINE if none
void     net_process_due(uint64_t now);
bool     net_busy(void);                  // anything in flight / ready for a poller
void     net_init(void);
void     net_describe_fd(int fd, char *buf, size_t n);

// result plumbing
void out_json_kv(std::string &s, const char *k, const char *v);
void sim_finish_with(const char *status, const char *prop, const char *cls,
    const char *detail) __attribute__((noreturn));
void sim_vviolation(const char *prop, const char *cls, const char *fmt,
    va_list ap) __attribute__((noreturn));

const sim_config *sim_cfg(void);
void              alloc_init(void);
const char       *sim_default_prop(void);

#endif
