// Deterministic simulator for nng: public interface for harness code.
// See /verif/DESIGN.md sections 2-3.
#ifndef VERIF_SIM_H
#define VERIF_SIM_H

#include <stddef.h>
#include <stdint.h>

#ifdef __cplusplus
extern "C" {
#endif

// ---------------------------------------------------------------- config ---
typedef struct sim_config {
	uint64_t seed;
	// scheduler
	int      strategy;      // 0 random-walk sticky, 1 PCT, 2 near-natural
	double   switch_p;      // random walk: prob. of considering a switch
	int      pct_depth;     // PCT: number of priority change points + 1
	uint64_t pct_len;       // PCT: expected run length (steps)
	uint64_t max_steps;     // budget
	uint64_t max_virtual_ns; // budget (relative to start)
	// clock
	uint64_t clock_cost_ns; // cost of one clock_gettime
	uint64_t step_cost_ns;  // cost of one scheduling point
	uint64_t slack_max_ns;  // idle-jump slack upper bound
	double   stall_p;       // per scheduling point probability of a stall
	uint64_t stall_max_ns;
	// buggify
	double spurious_wake_p; // per cond wait
	double eintr_p;         // per interruptible syscall
	double epoll_partial_p; // epoll_wait returns a strict subset
	int    list_points;     // nni_list_first/next are scheduling points (unlocked list walks can be preempted)
	// net
	int      seg_mode;      // 0 full, 1 byte-at-a-time, 2 random 1..k, 3 mixed
	int      seg_k;         // for mode 2
	double   eagain_p;      // spurious EAGAIN between partial transfers
	uint64_t lat_min_ns, lat_max_ns; // segment latency
	uint32_t sndbuf_min, sndbuf_max; // per-connection send capacity drawn
	uint64_t conn_delay_max_ns;      // connect completion delay
	double   accept_err_p;
	double   unix_backlog_full_p; // connect() on a unix stream socket finds the listener's backlog full: EAGAIN (connect(2), Linux)
	// alloc
	int64_t fail_alloc_k;   // fail k-th allocation (1-based), 0 = none
	double  fail_alloc_p;   // probabilistic failure
	// tracing
	int trace_level;        // 0 none, 1 harness events, 2 all sched points
	int record_decisions;   // record schedule decisions for explicit replay
} sim_config;

void sim_config_default(sim_config *c);

// ------------------------------------------------------------- run control ---
// Called from the process main thread.  Turns the caller into simulated
// thread 0 and starts the virtual world.
void sim_begin(const sim_config *cfg);
// Report the outcome and leave the process.  Never returns.
void sim_finish(void) __attribute__((noreturn));

// Violation reporting (first one wins; ends the run).
void sim_violation(const char *prop, const char *cls, const char *fmt, ...)
    __attribute__((format(printf, 3, 4), noreturn));
// Non-fatal: mark run inconclusive.
void sim_inconclusive(const char *fmt, ...)
    __attribute__((format(printf, 1, 2), noreturn));

// ----------------------------------------------------------------- tasks ---
typedef void (*sim_task_fn)(void *);
#define SIM_TASK_DAEMON 1
int  sim_spawn(const char *name, sim_task_fn fn, void *arg, int flags);
void sim_join(int tid);
void sim_join_all(void); // all non-daemon harness tasks spawned so far
int  sim_self(void);
void sim_kill_daemons(void);
int  sim_live_tasks(void);
void sim_yield(void);
void sim_sleep_ms(uint64_t ms);
void sim_sleep_ns(uint64_t ns);
// Block until the rest of the system is idle and no timer/net event is due
// within horizon_ns.  Returns virtual time.
uint64_t sim_quiesce(uint64_t horizon_ns);

// Simple harness-level condition: block until *flag != 0 (checked whenever
// scheduler looks for enabled threads).  timeout_ns 0 = forever.
// Returns 0 if flag set, -1 on timeout.
int sim_wait_flag(volatile int *flag, uint64_t timeout_ns);

// ----------------------------------------------------------------- clock ---
uint64_t sim_now_ns(void);   // virtual monotonic, starts at 1000 s
uint64_t sim_now_ms(void);   // == nni_clock()
uint64_t sim_stall_total_ns(void); // sum of injected stalls so far
// has the calling thread been descheduled in a blocked state since mark?
uint64_t sim_block_count(void); // number of times the calling thread blocked

// ------------------------------------------------------------ randomness ---
// Independent streams; tag selects stream.
// WORK and FAULT are *recorded* choice streams: every bounded draw is logged,
// can be replayed from an explicit list and is what the shrinker edits (an
// exhausted list yields 0, the simplest choice).  The others are pure PRNG
// streams of the run seed.
enum { SIM_RNG_SCHED, SIM_RNG_FAULT, SIM_RNG_NET, SIM_RNG_WORK, SIM_RNG_LIB,
	SIM_RNG_ALLOC, SIM_RNG_BUG, SIM_RNG_NSTREAMS };
void sim_seed(uint64_t seed); // must precede any draw; sim_begin keeps it
void sim_replay_load(int stream, const uint64_t *vals, size_t n);
size_t sim_record_get(int stream, const uint64_t **vals);
uint64_t sim_rand(int stream);
uint64_t sim_rand_range(int stream, uint64_t lo, uint64_t hi); // inclusive
double   sim_rand_unit(int stream);
int      sim_rand_chance(int stream, double p);

// --------------------------------------------------------- trace / stats ---
void sim_event(const char *fmt, ...) __attribute__((format(printf, 1, 2)));
void sim_debug(const char *fmt, ...) __attribute__((format(printf, 1, 2)));
void sim_hist(uint64_t a, uint64_t b); // fold into history hash
void sim_probe(const char *name);      // count a named rare condition
void sim_fault_fired(const char *kind, int in_flight);
void sim_sample(const char *fmt, ...) __attribute__((format(printf, 1, 2)));
void sim_stat(const char *name, int64_t add);
uint64_t sim_steps(void);

// --------------------------------------------------------------- allocator ---
void   *sim_malloc(size_t);
void   *sim_calloc(size_t, size_t);
void    sim_free(void *, size_t);
int64_t sim_alloc_count(void);   // number of allocations so far
int64_t sim_alloc_live(void);    // live blocks
int64_t sim_alloc_live_bytes(void);
int     sim_alloc_fault_hit(void); // did an injected failure happen
void    sim_alloc_set_fail_k(int64_t k);
void    sim_alloc_enable_faults(int on);
void    sim_alloc_check_balance(const char *prop); // violation if live != 0

// ------------------------------------------------------------------ net ---
// Harness-side blocking calls on simulated descriptors (raw peers).
// All return like their libc namesakes, errno set.
int     simnet_socket(int domain, int type);
int     simnet_connect_blocking(int fd, const void *sa, unsigned salen,
        uint64_t timeout_ns);
int     simnet_accept_blocking(int fd, uint64_t timeout_ns);
long    simnet_read_blocking(int fd, void *buf, size_t n, uint64_t timeout_ns);
long    simnet_write_blocking(int fd, const void *buf, size_t n,
        uint64_t timeout_ns);
// read exactly n bytes unless EOF/error/timeout; returns bytes read
long    simnet_read_full(int fd, void *buf, size_t n, uint64_t timeout_ns);
long    simnet_write_full(int fd, const void *buf, size_t n,
        uint64_t timeout_ns);
void    simnet_reset(int fd);  // abortive close (RST)
// Fault controls
void simnet_set_cut(int fd, int dir /*0 rd,1 wr*/, long offset);
void simnet_stall_conn(int fd, int dir, int on);
void simnet_partition(uint32_t ip_a, uint32_t ip_b, int on);
void simnet_stall_port(uint16_t server_port, int toward_server, int on);
void simnet_blackhole(uint32_t ip, uint16_t port, int on);
void simnet_kill_conns_of(uint32_t ip, uint16_t port); // reset all conns whose server side is ip:port
void simnet_ebadf_close_fatal(int on); // close() of a descriptor that is not open ends the run as C10 'descriptor_closed_twice'
void simnet_sigpipe_fatal(int on); // EPIPE without MSG_NOSIGNAL in a thread that has not blocked SIGPIPE ends the run as C11 'sigpipe'
int  simnet_inflight(void); // bytes/segments in flight
// connect() log for C14: callback invoked on every connect() by library code
typedef void (*simnet_connect_hook)(const void *sa, unsigned salen, uint64_t now_ns);
void simnet_set_connect_hook(simnet_connect_hook h);
// per-connection override of segmentation: mode as sim_config.seg_mode
void simnet_set_seg(int fd, int mode, int k);
// the same two controls applied to the OTHER end of fd's connection (the
// library's end of a raw peer's socket): cut its reads (dir 0) / writes (dir 1)
// at an absolute stream offset, override its segmentation mode
void simnet_set_cut_peer(int fd, int dir, long offset);
void simnet_set_seg_peer(int fd, int mode, int k);
// poll() on simulated fds without blocking: returns revents for POLLIN
int simnet_poll_in(int fd);

#ifdef __cplusplus
}
#endif
#endif
