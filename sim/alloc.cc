// Allocator ledger + fault injection, installed through nng_init_params.
#include "internal.h"

#include <stdint.h>
#include <stdio.h>
#include <stdlib.h>
#include <string.h>

#include <algorithm>
#include <unordered_map>
#include <vector>

#define NFRAMES 6
struct Rec {
	size_t  size;
	int64_t seq;
	void   *site[NFRAMES];
};

// cheap frame-pointer walk (everything is built -fno-omit-frame-pointer)
static void
walk(void **out)
{
	void **fp = (void **) __builtin_frame_address(0);
	int    n  = 0, skip = 2;
	uintptr_t lo = (uintptr_t) fp;
	while (fp != NULL && n < NFRAMES) {
		void **next = (void **) fp[0];
		void  *ret  = fp[1];
		if (skip > 0)
			skip--;
		else
			out[n++] = ret;
		if ((uintptr_t) next <= (uintptr_t) fp || (uintptr_t) next > lo + (1u << 20))
			break;
		fp = next;
	}
	while (n < NFRAMES)
		out[n++] = NULL;
}

static struct {
	std::unordered_map<void *, Rec> *live;
	int64_t count;
	int64_t live_bytes;
	int64_t fail_k;
	double  fail_p;
	bool    faults_on;
	int     fault_hit;
	int64_t fault_seq;
	size_t  fault_size;
} A;

void
alloc_init(void)
{
	A.live       = new std::unordered_map<void *, Rec>();
	A.count      = 0;
	A.live_bytes = 0;
	A.fail_k     = sim_cfg()->fail_alloc_k;
	A.fail_p     = sim_cfg()->fail_alloc_p;
	A.faults_on  = true;
	A.fault_hit  = 0;
}

static bool
should_fail(size_t sz)
{
	A.count++;
	if (sz > (64u << 20)) {
		sim_probe("alloc_huge_refused");
		return true;
	}
	if (!A.faults_on)
		return false;
	if (A.fail_k > 0 && A.count == A.fail_k) {
		if (getenv("SIM_TRACE_FAULT") != NULL) {
			// SIM_TRACE_FAULT=/path appends to that file (a run's stderr is only kept on a crash)
			void *fr[NFRAMES];
			const char *tf = getenv("SIM_TRACE_FAULT");
			FILE *o = tf[0] == '/' ? fopen(tf, "a") : stderr;
			if (o == NULL)
				o = stderr;
			walk(fr);
			fprintf(o, "FAULT alloc #%lld size %zu at", (long long) A.count, sz);
			for (int k = 0; k < NFRAMES && fr[k]; k++)
				fprintf(o, " %p", fr[k]);
			fprintf(o, "\n");
			if (o != stderr)
				fclose(o);
		}
		A.fault_hit++;
		A.fault_seq  = A.count;
		A.fault_size = sz;
		sim_fault_fired("alloc_fail", 1);
		return true;
	}
	if (A.fail_p > 0 && sim_rand_chance(SIM_RNG_ALLOC, A.fail_p)) {
		A.fault_hit++;
		A.fault_seq  = A.count;
		A.fault_size = sz;
		sim_fault_fired("alloc_fail", 1);
		return true;
	}
	return false;
}

extern "C" void *
sim_malloc(size_t sz)
{
	if (should_fail(sz))
		return NULL;
	void *p = malloc(sz);
	if (p == NULL)
		return NULL;
	Rec r;
	r.size = sz;
	r.seq  = A.count;
	walk(r.site);
	(*A.live)[p] = r;
	A.live_bytes += (int64_t) sz;
	sim_debug("malloc #%lld %zuB", (long long) A.count, sz);
	sched_trace(EV_ALLOC, (uint32_t) sz, 0);
	return p;
}

extern "C" void *
sim_calloc(size_t n, size_t sz)
{
	size_t tot = n * sz;
	if (sz != 0 && tot / sz != n)
		return NULL;
	if (should_fail(tot))
		return NULL;
	void *p = calloc(n, sz);
	if (p == NULL)
		return NULL;
	Rec r;
	r.size = tot;
	r.seq  = A.count;
	walk(r.site);
	(*A.live)[p] = r;
	A.live_bytes += (int64_t) tot;
	sim_debug("calloc #%lld %zuB", (long long) A.count, tot);
	sched_trace(EV_ALLOC, (uint32_t) tot, 1);
	return p;
}

extern "C" void
sim_free(void *p, size_t sz)
{
	if (p == NULL)
		return;
	auto it = A.live->find(p);
	if (it == A.live->end()) {
		sim_violation("C03", "free_unknown",
		    "free of pointer not allocated by the ledger (size arg %zu)",
		    sz);
	}
	if (it->second.size != sz) {
		sim_violation("C03", "sized_free_mismatch",
		    "block allocated with size %zu (alloc #%lld) freed with size %zu",
		    it->second.size, (long long) it->second.seq, sz);
	}
	A.live_bytes -= (int64_t) it->second.size;
	sim_debug("free #%lld %zuB", (long long) it->second.seq, sz);
	{
		static long watch = -2;
		if (watch == -2) {
			const char *w = getenv("SIM_WATCH_ALLOC");
			watch = w ? atol(w) : -1;
		}
		if (watch >= 0 && it->second.seq == watch) {
			void *fr[NFRAMES];
			walk(fr);
			fprintf(stderr, "WATCH free of alloc #%ld at", watch);
			for (int k = 0; k < NFRAMES && fr[k]; k++)
				fprintf(stderr, " %p", fr[k]);
			fprintf(stderr, "\n");
		}
	}
	A.live->erase(it);
	sched_trace(EV_ALLOC, (uint32_t) sz, 2);
	free(p);
}

extern "C" int64_t
sim_alloc_count(void)
{
	return A.count;
}
extern "C" int64_t
sim_alloc_live(void)
{
	return A.live ? (int64_t) A.live->size() : 0;
}
extern "C" int64_t
sim_alloc_live_bytes(void)
{
	return A.live_bytes;
}
extern "C" int
sim_alloc_fault_hit(void)
{
	return A.fault_hit;
}
extern "C" void
sim_alloc_set_fail_k(int64_t k)
{
	A.fail_k = k;
}
extern "C" void
sim_alloc_enable_faults(int on)
{
	A.faults_on = on != 0;
}

extern "C" void
sim_alloc_check_balance(const char *prop)
{
	if (A.live->empty())
		return;
	std::vector<Rec> v;
	for (auto &kv : *A.live)
		v.push_back(kv.second);
	std::sort(v.begin(), v.end(),
	    [](const Rec &a, const Rec &b) { return a.seq < b.seq; });
	char   buf[900];
	size_t off = 0;
	off += snprintf(buf + off, sizeof(buf) - off,
	    "%zu blocks (%lld bytes) still allocated after nng_fini:",
	    v.size(), (long long) A.live_bytes);
	for (size_t i = 0; i < v.size() && i < 4 && off < sizeof(buf) - 160; i++) {
		off += snprintf(buf + off, sizeof(buf) - off, " #%lld(%zuB)@",
		    (long long) v[i].seq, v[i].size);
		for (int k = 0; k < NFRAMES && v[i].site[k]; k++)
			off += snprintf(buf + off, sizeof(buf) - off, "%s%p", k ? "<" : "",
			    v[i].site[k]);
	}
	sim_violation(prop, "leak", "%s", buf);
}
