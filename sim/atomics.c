// generated: scheduling points at nng's out-of-line atomics
#include <stdbool.h>
#include <stdint.h>
extern void sim_atomic_point(int op, int spin);

extern bool __real_nni_atomic_flag_test_and_set(void * f);
bool
__wrap_nni_atomic_flag_test_and_set(void * f)
{
	sim_atomic_point(0, 0);
	bool r = __real_nni_atomic_flag_test_and_set(f);
	if (r)
		sim_atomic_point(0, 1);
	return r;
}

extern void __real_nni_atomic_flag_reset(void * f);
void
__wrap_nni_atomic_flag_reset(void * f)
{
	sim_atomic_point(1, 0);
	__real_nni_atomic_flag_reset(f);
}

extern void __real_nni_atomic_set_bool(void * v, bool b);
void
__wrap_nni_atomic_set_bool(void * v, bool b)
{
	sim_atomic_point(2, 0);
	__real_nni_atomic_set_bool(v, b);
}

extern bool __real_nni_atomic_get_bool(void * v);
bool
__wrap_nni_atomic_get_bool(void * v)
{
	sim_atomic_point(3, 0);
	return __real_nni_atomic_get_bool(v);
}

extern bool __real_nni_atomic_swap_bool(void * v, bool b);
bool
__wrap_nni_atomic_swap_bool(void * v, bool b)
{
	sim_atomic_point(4, 0);
	return __real_nni_atomic_swap_bool(v, b);
}

extern void __real_nni_atomic_add(void * v, int b);
void
__wrap_nni_atomic_add(void * v, int b)
{
	sim_atomic_point(5, 0);
	__real_nni_atomic_add(v, b);
}

extern void __real_nni_atomic_sub(void * v, int b);
void
__wrap_nni_atomic_sub(void * v, int b)
{
	sim_atomic_point(6, 0);
	__real_nni_atomic_sub(v, b);
}

extern int __real_nni_atomic_or(void * v, int b);
int
__wrap_nni_atomic_or(void * v, int b)
{
	sim_atomic_point(7, 0);
	return __real_nni_atomic_or(v, b);
}

extern int __real_nni_atomic_and(void * v, int b);
int
__wrap_nni_atomic_and(void * v, int b)
{
	sim_atomic_point(8, 0);
	return __real_nni_atomic_and(v, b);
}

extern int __real_nni_atomic_get(void * v);
int
__wrap_nni_atomic_get(void * v)
{
	sim_atomic_point(9, 0);
	return __real_nni_atomic_get(v);
}

extern void __real_nni_atomic_set(void * v, int b);
void
__wrap_nni_atomic_set(void * v, int b)
{
	sim_atomic_point(10, 0);
	__real_nni_atomic_set(v, b);
}

extern void * __real_nni_atomic_get_ptr(void * v);
void *
__wrap_nni_atomic_get_ptr(void * v)
{
	sim_atomic_point(11, 0);
	return __real_nni_atomic_get_ptr(v);
}

extern void __real_nni_atomic_set_ptr(void * v, void * p);
void
__wrap_nni_atomic_set_ptr(void * v, void * p)
{
	sim_atomic_point(12, 0);
	__real_nni_atomic_set_ptr(v, p);
}

extern int __real_nni_atomic_swap(void * v, int b);
int
__wrap_nni_atomic_swap(void * v, int b)
{
	sim_atomic_point(13, 0);
	return __real_nni_atomic_swap(v, b);
}

extern void __real_nni_atomic_inc(void * v);
void
__wrap_nni_atomic_inc(void * v)
{
	sim_atomic_point(14, 0);
	__real_nni_atomic_inc(v);
}

extern void __real_nni_atomic_dec(void * v);
void
__wrap_nni_atomic_dec(void * v)
{
	sim_atomic_point(15, 0);
	__real_nni_atomic_dec(v);
}

extern int __real_nni_atomic_dec_nv(void * v);
int
__wrap_nni_atomic_dec_nv(void * v)
{
	sim_atomic_point(16, 0);
	return __real_nni_atomic_dec_nv(v);
}

extern bool __real_nni_atomic_cas(void * v, int c, int n);
bool
__wrap_nni_atomic_cas(void * v, int c, int n)
{
	sim_atomic_point(17, 0);
	return __real_nni_atomic_cas(v, c, n);
}

extern uint64_t __real_nni_atomic_get64(void * v);
uint64_t
__wrap_nni_atomic_get64(void * v)
{
	sim_atomic_point(18, 0);
	return __real_nni_atomic_get64(v);
}

extern void __real_nni_atomic_set64(void * v, uint64_t u);
void
__wrap_nni_atomic_set64(void * v, uint64_t u)
{
	sim_atomic_point(19, 0);
	__real_nni_atomic_set64(v, u);
}

extern uint64_t __real_nni_atomic_swap64(void * v, uint64_t u);
uint64_t
__wrap_nni_atomic_swap64(void * v, uint64_t u)
{
	sim_atomic_point(20, 0);
	return __real_nni_atomic_swap64(v, u);
}

extern uint64_t __real_nni_atomic_dec64_nv(void * v);
uint64_t
__wrap_nni_atomic_dec64_nv(void * v)
{
	sim_atomic_point(21, 0);
	return __real_nni_atomic_dec64_nv(v);
}

extern bool __real_nni_atomic_cas64(void * v, uint64_t c, uint64_t n);
bool
__wrap_nni_atomic_cas64(void * v, uint64_t c, uint64_t n)
{
	sim_atomic_point(22, 0);
	return __real_nni_atomic_cas64(v, c, n);
}
