// aio exactly-once monitor (DESIGN.md 7/C02, appendix B.7), attached purely
// at link time: nni_task_* and nni_aio_* are cross-translation-unit calls.
// Compiled with libnng's own flags so that structure layouts agree.
#include "core/nng_impl.h"

#include <stdint.h>
#include <stdio.h>
#include <stdlib.h>
#include <string.h>

#include "sim.h"

extern void nni_task_init(nni_task *, nni_taskq *, nni_cb, void *);

void __real_nni_task_init(nni_task *, nni_taskq *, nni_cb, void *);
void __real_nni_task_fini(nni_task *);
void __real_nni_task_dispatch(nni_task *);
void __real_nni_task_exec(nni_task *);
bool __real_nni_aio_start(nni_aio *, nni_aio_cancel_fn, void *);
void __real_nni_aio_stop(nni_aio *);
void __real_nni_aio_fini(nni_aio *);
void __real_nni_aio_abort(nni_aio *, nng_err);
void __real_nni_aio_close(nni_aio *);
void __real_nni_sleep_aio(nng_duration, nng_aio *);
void __real_nni_aio_set_expire(nni_aio *, nni_time);

typedef struct Ent {
	nni_task *task;
	nni_cb    cb;
	void     *arg;
	uint32_t  id;
	uint32_t  completions; // dispatch/exec entries
	uint32_t  cb_begun;
	uint32_t  cb_ended;
	uint32_t  starts;
	bool      dead;
	bool      accepted;    // an accepted start awaits completion
	bool      sleeping;
	bool      finiing;
	uint64_t  expire_ms;   // valid while accepted
	uint64_t  start_ms;
	bool      prev_late;   // an earlier submission completed (not by timeout)
	                       // after its deadline had already passed, and no
	                       // timeout has been delivered for this aio since
	bool      in_start;    // inside nni_aio_start / nni_sleep_aio
	bool      start_fresh; // the accepted submission had an absolute expiration of its own
	int       start_timeout;
	bool      abs_fresh;   // nni_aio_set_expire was called for the submission
	                       // about to start (cleared by start and completion)
	uint64_t  refusal_mask; // bit (k mod 64): completion k was a refused start
} Ent;

#define HSIZE (1u << 16)
static Ent    **htab;  // open addressing by task pointer
static uint32_t next_id;
static uint32_t n_live;
static bool     mon_off;

static struct {
	uint64_t inits, finis, completions, sync_completions, callbacks,
	    accepted, refused, stops, aborts, closes;
} C;

static inline uint32_t
hidx(const void *p)
{
	uint64_t x = (uint64_t) (uintptr_t) p;
	x ^= x >> 33;
	x *= 0xff51afd7ed558ccdull;
	x ^= x >> 29;
	return (uint32_t) x & (HSIZE - 1);
}

static Ent *
lookup(nni_task *t)
{
	if (htab == NULL)
		return NULL;
	uint32_t i = hidx(t);
	for (uint32_t n = 0; n < HSIZE; n++, i = (i + 1) & (HSIZE - 1)) {
		if (htab[i] == NULL)
			return NULL;
		if (htab[i]->task == t)
			return htab[i];
	}
	return NULL;
}

static void
insert(Ent *e)
{
	if (htab == NULL)
		htab = calloc(HSIZE, sizeof(Ent *));
	uint32_t i = hidx(e->task);
	for (uint32_t n = 0; n < HSIZE; n++, i = (i + 1) & (HSIZE - 1)) {
		if (htab[i] == NULL || htab[i]->task == e->task) {
			htab[i] = e;
			return;
		}
	}
	mon_off = true; // table full: stop monitoring rather than misreport
	sim_probe("aiomon_table_full");
}

void
aiomon_disable(void)
{
	mon_off = true;
}

static inline nni_aio *
aio_of(nni_task *t)
{
	return (nni_aio *) ((char *) t - offsetof(nni_aio, a_task));
}

static void
mon_trampoline(void *arg)
{
	Ent *e = arg;
	if (e->dead) {
		sim_violation("C02", "callback_after_free",
		    "aio #%u: callback begins after nni_aio_fini/free returned",
		    e->id);
	}
	e->cb_begun++;
	C.callbacks++;
	sim_debug("aio#%u cb_begin", e->id);
	if (e->cb_begun > e->completions) {
		sim_violation("C02", "callback_without_completion",
		    "aio #%u: %u callbacks for %u completions", e->id,
		    e->cb_begun, e->completions);
	}
	e->cb(e->arg);
	// note: the aio (and e->task memory) may be gone now; e itself stays
	e->cb_ended++;
}

void
__wrap_nni_task_init(nni_task *task, nni_taskq *tq, nni_cb cb, void *arg)
{
	if (mon_off) {
		__real_nni_task_init(task, tq, cb, arg);
		return;
	}
	Ent *old = lookup(task);
	if (old != NULL && !old->dead) {
		sim_probe("aio_reinit_without_fini");
		old->dead = true;
		n_live--;
	}
	Ent *e  = calloc(1, sizeof(*e));
	e->task = task;
	e->cb   = cb;
	e->arg  = arg;
	e->id   = ++next_id;
	insert(e);
	n_live++;
	C.inits++;
	__real_nni_task_init(
	    task, tq, cb != NULL ? mon_trampoline : NULL, cb != NULL ? e : NULL);
}

void
__wrap_nni_task_fini(nni_task *task)
{
	Ent *e = mon_off ? NULL : lookup(task);
	if (e != NULL)
		e->finiing = true;
	__real_nni_task_fini(task);
	if (e != NULL && !e->dead) {
		if (e->cb != NULL && e->cb_begun != e->cb_ended) {
			sim_violation("C02", "callback_running_after_fini",
			    "aio #%u: nni_aio_fini returned while its callback is running",
			    e->id);
		}
		if (e->cb != NULL && e->cb_begun != e->completions) {
			sim_violation("C02", "completion_lost_at_fini",
			    "aio #%u: fini returned with %u completions but %u callbacks",
			    e->id, e->completions, e->cb_begun);
		}
		e->dead = true;
		n_live--;
		C.finis++;
	}
}

static void
note_completion(nni_task *task, bool sync)
{
	Ent *e = mon_off ? NULL : lookup(task);
	if (e == NULL || e->dead)
		return;
	nni_aio *aio = aio_of(task);
	e->abs_fresh = false;
	sim_debug("aio#%u complete result=%d sync=%d accepted=%d", e->id,
	    (int) aio->a_result, (int) sync, (int) e->accepted);
	if (e->cb != NULL && e->completions > e->cb_begun) {
		sim_violation("C02", "double_completion",
		    "aio #%u completed again (result %d) while the callback for "
		    "its previous completion has not yet begun",
		    e->id, (int) aio->a_result);
	}
	// completions of submissions that were never accepted by nni_aio_start
	// (refused starts, and providers that fail a submission synchronously
	// without starting it) are new submissions, not late completions
	if (e->in_start || !e->accepted)
		e->refusal_mask |= 1ull << (e->completions & 63);
	else
		e->refusal_mask &= ~(1ull << (e->completions & 63));
	e->completions++;
	C.completions++;
	if (sync)
		C.sync_completions++;
	if (e->accepted) {
		uint64_t now = sim_now_ms();
		if (aio->a_result == NNG_ETIMEDOUT && e->expire_ms != 0 &&
		    now < e->expire_ms) {
			// A timeout that belongs to the *previous* submission of
			// a reused aio (that submission completed otherwise after
			// its deadline, while the expire thread already held it
			// in its batch) is a distinct, narrower history.
			sim_violation("C02",
			    e->prev_late ? "early_timeout_stale_expiry"
			                 : "early_timeout",
			    "aio #%u timed out at %llu ms, %llu ms before its "
			    "deadline (started %llu; timeout %d ms%s%s)",
			    e->id, (unsigned long long) now,
			    (unsigned long long) (e->expire_ms - now),
			    (unsigned long long) e->start_ms, e->start_timeout,
			    e->start_fresh ? ", absolute expiration set for this submission" : "",
			    e->sleeping ? ", sleep" : "");
		}
		if (e->sleeping && aio->a_result == NNG_OK && e->expire_ms != 0 &&
		    now < e->expire_ms) {
			sim_violation("C02", "early_sleep_wake",
			    "sleep aio #%u completed OK %llu ms before its time",
			    e->id, (unsigned long long) (e->expire_ms - now));
		}
	}
	if (aio->a_result == NNG_ETIMEDOUT && e->accepted && !e->in_start) {
		// (a submission refused with NNG_ETIMEDOUT, zero timeout, is not
		// the expire thread's doing and says nothing about its batch)
		e->prev_late = false; // the expire thread has dealt with this aio
	} else if (e->accepted && e->expire_ms != 0 && sim_now_ms() >= e->expire_ms) {
		e->prev_late = true;
	}
	e->accepted = false;
	e->sleeping = false;
	if (e->cb == NULL) {
		e->cb_begun++;
		e->cb_ended++;
	}
}

void
__wrap_nni_task_dispatch(nni_task *task)
{
	note_completion(task, false);
	__real_nni_task_dispatch(task);
}

void
__wrap_nni_task_exec(nni_task *task)
{
	note_completion(task, true);
	__real_nni_task_exec(task);
}

void
__wrap_nni_aio_set_expire(nni_aio *aio, nni_time when)
{
	Ent *e = mon_off ? NULL : lookup(&aio->a_task);
	if (e != NULL && !e->dead)
		e->abs_fresh = true;
	__real_nni_aio_set_expire(aio, when);
}

bool
__wrap_nni_aio_start(nni_aio *aio, nni_aio_cancel_fn fn, void *data)
{
	Ent *e = mon_off ? NULL : lookup(&aio->a_task);
	if (e != NULL && !e->dead) {
		e->starts++;
		if (e->accepted)
			sim_probe("aio_start_while_pending");
	}
	bool sleeping = aio->a_sleep;
	bool fresh    = e != NULL && e->abs_fresh;
	if (e != NULL) {
		e->in_start  = true;
		e->abs_fresh = false;
	}
	uint64_t t_before = sim_now_ms();
	bool     ok       = __real_nni_aio_start(aio, fn, data);
	if (e != NULL)
		e->in_start = false;
	// "A timeout never fires before the configured duration": a submission
	// refused on the spot with NNG_ETIMEDOUT needs a zero timeout or an
	// absolute expiration that was set for *this* submission
	if (e != NULL && !e->dead && !ok && !sleeping && !fresh &&
	    aio->a_result == NNG_ETIMEDOUT && aio->a_timeout != NNG_DURATION_ZERO) {
		sim_violation("C02", "early_timeout",
		    "aio #%u was refused at submission with NNG_ETIMEDOUT although its "
		    "timeout is %d ms and no absolute expiration was set for this "
		    "submission (a stale one from an earlier operation: %llu, now %llu)",
		    e->id, (int) aio->a_timeout, (unsigned long long) aio->a_expire,
		    (unsigned long long) sim_now_ms());
	}
	if (e != NULL)
		sim_debug("aio#%u start ok=%d timeout=%d expire=%llu", e->id, (int) ok,
		    (int) aio->a_timeout, (unsigned long long) aio->a_expire);
	if (e != NULL && !e->dead) {
		if (ok) {
			C.accepted++;
			e->accepted  = true;
			e->sleeping  = sleeping;
			e->start_fresh   = fresh;
			e->start_timeout = (int) aio->a_timeout;
			e->start_ms  = sim_now_ms();
			e->expire_ms = aio->a_expire == NNI_TIME_NEVER
			    ? 0
			    : (uint64_t) aio->a_expire;
			// without an absolute expiration of its own the configured
			// duration governs, whatever the aio still carries
			// (counted from before the call: the thread may be held up inside it)
			if (!fresh && !sleeping && aio->a_timeout > 0 &&
			    e->expire_ms < t_before + (uint64_t) aio->a_timeout)
				e->expire_ms = t_before + (uint64_t) aio->a_timeout;
		} else {
			C.refused++;
			sim_probe("aio_start_refused");
		}
	}
	return ok;
}

void
__wrap_nni_aio_stop(nni_aio *aio)
{
	__real_nni_aio_stop(aio);
	if (aio == NULL || !aio->a_init || mon_off)
		return;
	Ent *e = lookup(&aio->a_task);
	C.stops++;
	if (e == NULL || e->dead)
		return;
	// A start attempted after (or racing with) the stop is refused and
	// answered by dispatching the callback with NNG_ESTOPPED: that is the
	// completion of the new submission, not a late completion of the
	// stopped one, so refusals are exempt.
	if (e->cb != NULL) {
		for (uint32_t k = e->cb_ended; k < e->completions; k++) {
			bool refusal = (e->refusal_mask >> (k & 63)) & 1;
			if (refusal)
				continue;
			if (k < e->cb_begun)
				sim_violation("C02", "callback_running_after_stop",
				    "aio #%u: nni_aio_stop returned while its "
				    "callback is running",
				    e->id);
			sim_violation("C02", "callback_pending_after_stop",
			    "aio #%u: nni_aio_stop returned with a dispatched "
			    "callback that has not run",
			    e->id);
		}
	}
	if (e->accepted) {
		sim_violation("C02", "pending_after_stop",
		    "aio #%u: nni_aio_stop returned but the operation is still "
		    "pending",
		    e->id);
	}
}

void
__wrap_nni_aio_fini(nni_aio *aio)
{
	__real_nni_aio_fini(aio);
}

void
__wrap_nni_aio_abort(nni_aio *aio, nng_err rv)
{
	C.aborts++;
	__real_nni_aio_abort(aio, rv);
}

void
__wrap_nni_aio_close(nni_aio *aio)
{
	C.closes++;
	__real_nni_aio_close(aio);
}

void
__wrap_nni_sleep_aio(nng_duration ms, nng_aio *aio)
{
	// nni_sleep_aio calls nni_aio_start inside aio.c (not interceptable),
	// so account for the accepted start here.
	Ent     *e      = mon_off ? NULL : lookup(&aio->a_task);
	uint32_t before = e ? e->completions : 0;
	if (e != NULL)
		e->in_start = true;
	__real_nni_sleep_aio(ms, aio);
	if (e != NULL)
		e->in_start = false;
	if (e != NULL && !e->dead && e->completions == before && aio->a_sleep) {
		C.accepted++;
		e->starts++;
		e->accepted  = true;
		e->sleeping  = true;
		e->start_ms  = sim_now_ms();
		e->expire_ms = aio->a_expire == NNI_TIME_NEVER
		    ? 0
		    : (uint64_t) aio->a_expire;
	}
}

// summary for evidence / self-test
void
aiomon_report(void)
{
	sim_stat("aio_inits", (int64_t) C.inits);
	sim_stat("aio_finis", (int64_t) C.finis);
	sim_stat("aio_completions", (int64_t) C.completions);
	sim_stat("aio_sync_completions", (int64_t) C.sync_completions);
	sim_stat("aio_callbacks", (int64_t) C.callbacks);
	sim_stat("aio_start_accepted", (int64_t) C.accepted);
	sim_stat("aio_start_refused", (int64_t) C.refused);
	sim_stat("aio_stops", (int64_t) C.stops);
	sim_stat("aio_aborts", (int64_t) C.aborts);
	sim_stat("aio_live_at_end", (int64_t) n_live);
}

uint64_t
aiomon_callbacks(void)
{
	return C.callbacks;
}
uint64_t
aiomon_completions(void)
{
	return C.completions;
}
