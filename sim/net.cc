// Simulated kernel: descriptor table, epoll, eventfd, pipe, stream and
// datagram sockets, unix path namespace, resolver.  Reached via -Wl,--wrap.
#include "internal.h"

#include <arpa/inet.h>
#include <errno.h>
#include <fcntl.h>
#include <netdb.h>
#include <netinet/in.h>
#include <netinet/tcp.h>
#include <poll.h>
#include <pthread.h>
#include <signal.h>
#include <stdio.h>
#include <stdlib.h>
#include <string.h>
#include <sys/epoll.h>
#include <sys/eventfd.h>
#include <sys/socket.h>
#include <sys/stat.h>
#include <sys/uio.h>
#include <sys/un.h>
#include <unistd.h>

#include <deque>
#include <map>
#include <set>
#include <string>
#include <vector>

extern "C" int sim_block_io(int fd, int dir, uint64_t deadline);
extern "C" int sim_block_epoll(int epfd, uint64_t deadline);

#define FD_BASE 1000
#define FD_MAX 4096

enum FdKind { FK_FREE = 0, FK_EPOLL, FK_EVENTFD, FK_PIPE_R, FK_PIPE_W, FK_SOCK };

struct Addr {
	int         family; // AF_INET, AF_INET6, AF_UNIX, 0 = none
	uint8_t     ip[16];
	uint16_t    port;
	std::string path; // unix: path, or abstract with leading '\0'
	bool
	operator<(const Addr &o) const
	{
		if (family != o.family)
			return family < o.family;
		if (family == AF_UNIX)
			return path < o.path;
		int c = memcmp(ip, o.ip, 16);
		if (c)
			return c < 0;
		return port < o.port;
	}
	bool
	any_ip() const
	{
		for (int i = 0; i < 16; i++)
			if (ip[i])
				return false;
		return true;
	}
};

struct Seg {
	std::string data;
	bool        fin;
	bool        rst;
	uint64_t    at;
};

struct Half { // what one side receives
	std::string     rcv;
	std::deque<Seg> inq;
	size_t          inq_bytes;
	bool            eof;      // FIN delivered
	bool            rst;      // RST delivered
	bool            rst_reported;
	uint64_t        last_at;  // delivery time monotonicity
	bool            stalled;  // segments held (fault)
	uint64_t        total_rd; // stream offset consumed by reader
	uint64_t        total_wr; // stream offset accepted from writer
	long            cut_rd, cut_wr; // armed cut offsets (-1 none)
	uint64_t        block_rd_until, block_wr_until; // spurious EAGAIN windows
};

struct Conn {
	Half   h[2];
	size_t cap[2];     // send capacity of side s (towards h[1-s])
	bool   closed[2];  // side closed its fd
	bool   wr_shut[2];
	bool   rd_shut[2];
	int    segmode[2], segk[2];
	Addr   addr[2];
	int    id;
	bool   is_tcp;
};

struct Dgram {
	std::string data;
	Addr        from;
};

enum SockState { SS_NEW, SS_BOUND, SS_LISTEN, SS_CONNECTING, SS_CONNECTED, SS_CLOSED };

struct Sock {
	int      id;
	int      domain, type;
	int      state;
	Addr     local, peer;
	bool     bound;
	Conn    *conn;
	int      side;
	std::deque<Sock *> acceptq;
	int      backlog;
	bool     listen_shut;
	int      so_error;
	bool     connect_pending;
	uint64_t connect_at;
	int      connect_result;
	Sock    *pending_server; // server-side sock to enqueue when connect completes
	Sock    *listener;
	int      nodelay, keepalive;
	std::deque<Dgram> dq;
	int      refs; // number of fds
};

struct PipeBuf {
	std::string data;
	int         readers, writers;
};

struct EpItem {
	uint32_t events;
	uint64_t data;
	bool     armed;
};

struct Epoll {
	std::map<int, EpItem> items; // keyed by fd: deterministic order
};

struct FdEnt {
	int   kind;
	bool  nonblock;
	void *obj;
	uint64_t evcount; // eventfd
};

enum NetEvType { NE_SEG, NE_CONNECT, NE_NOP, NE_DGRAM };
struct NetEv {
	int   type;
	Conn *conn;
	int   side;
	Sock *sock;
	Dgram dg;
};

static struct {
	FdEnt fds[FD_MAX];
	std::multimap<std::pair<uint64_t, uint64_t>, NetEv> *evq;
	uint64_t evseq;
	std::map<Addr, Sock *> *bound_stream;
	std::map<Addr, Sock *> *bound_dgram;
	std::set<std::string> *paths; // unix path namespace (incl. stale)
	std::vector<Conn *> *conns;
	std::vector<Sock *> *socks;
	std::set<std::pair<uint32_t, uint32_t>> *partitions;
	std::set<std::pair<uint32_t, uint16_t>> *blackholes;
	uint16_t next_port;
	uint32_t next_abstract;
	simnet_connect_hook connect_hook;
	int inflight_segs;
} N;

// ------------------------------------------------------------- helpers ---
static inline bool
is_sim_fd(int fd)
{
	return fd >= FD_BASE && fd < FD_BASE + FD_MAX &&
	    N.fds[fd - FD_BASE].kind != FK_FREE;
}
static inline bool
in_sim_range(int fd)
{
	return fd >= FD_BASE && fd < FD_BASE + FD_MAX;
}
static inline FdEnt *
ent(int fd)
{
	return &N.fds[fd - FD_BASE];
}

static int
fd_alloc(int kind, void *obj)
{
	for (int i = 0; i < FD_MAX; i++) {
		if (N.fds[i].kind == FK_FREE) {
			N.fds[i].kind     = kind;
			N.fds[i].obj      = obj;
			N.fds[i].nonblock = false;
			N.fds[i].evcount  = 0;
			return FD_BASE + i;
		}
	}
	errno = EMFILE;
	return -1;
}

static void
ev_push(uint64_t at, NetEv ev)
{
	N.evq->insert(std::make_pair(std::make_pair(at, N.evseq++), ev));
}

static uint32_t
ip4_of(const Addr &a)
{
	if (a.family == AF_INET)
		return ((uint32_t) a.ip[0] << 24) | ((uint32_t) a.ip[1] << 16) |
		    ((uint32_t) a.ip[2] << 8) | a.ip[3];
	return 0;
}

static bool
addr_from_sockaddr(Addr *a, const void *sa, socklen_t len)
{
	const struct sockaddr *s = (const struct sockaddr *) sa;
	memset(a->ip, 0, 16);
	a->port = 0;
	a->path.clear();
	a->family = 0;
	if (sa == NULL || len < sizeof(sa_family_t))
		return false;
	a->family = s->sa_family;
	if (s->sa_family == AF_INET) {
		const struct sockaddr_in *in = (const struct sockaddr_in *) sa;
		memcpy(a->ip, &in->sin_addr, 4);
		a->port = ntohs(in->sin_port);
		return true;
	}
	if (s->sa_family == AF_INET6) {
		const struct sockaddr_in6 *in = (const struct sockaddr_in6 *) sa;
		memcpy(a->ip, &in->sin6_addr, 16);
		a->port = ntohs(in->sin6_port);
		return true;
	}
	if (s->sa_family == AF_UNIX) {
		const struct sockaddr_un *un = (const struct sockaddr_un *) sa;
		size_t plen = len - offsetof(struct sockaddr_un, sun_path);
		if (plen > sizeof(un->sun_path))
			plen = sizeof(un->sun_path);
		if (plen == 0) {
			a->path.clear(); // autobind
		} else if (un->sun_path[0] == 0) {
			a->path.assign(un->sun_path, plen); // abstract
		} else {
			a->path.assign(un->sun_path, strnlen(un->sun_path, plen));
		}
		return true;
	}
	return false;
}

static socklen_t
addr_to_sockaddr(const Addr &a, void *sa, socklen_t *len)
{
	struct sockaddr_storage ss;
	socklen_t               n = 0;
	memset(&ss, 0, sizeof(ss));
	if (a.family == AF_INET) {
		struct sockaddr_in *in = (struct sockaddr_in *) &ss;
		in->sin_family         = AF_INET;
		memcpy(&in->sin_addr, a.ip, 4);
		in->sin_port = htons(a.port);
		n            = sizeof(*in);
	} else if (a.family == AF_INET6) {
		struct sockaddr_in6 *in = (struct sockaddr_in6 *) &ss;
		in->sin6_family         = AF_INET6;
		memcpy(&in->sin6_addr, a.ip, 16);
		in->sin6_port = htons(a.port);
		n             = sizeof(*in);
	} else if (a.family == AF_UNIX) {
		struct sockaddr_un *un = (struct sockaddr_un *) &ss;
		un->sun_family         = AF_UNIX;
		size_t pl              = a.path.size();
		if (pl > sizeof(un->sun_path) - 1)
			pl = sizeof(un->sun_path) - 1;
		memcpy(un->sun_path, a.path.data(), pl);
		n = (socklen_t) (offsetof(struct sockaddr_un, sun_path) + pl);
		if (pl > 0 && a.path[0] != 0)
			n++; // trailing NUL for path names
	} else {
		ss.ss_family = AF_UNSPEC;
		n            = sizeof(sa_family_t);
	}
	if (sa != NULL && len != NULL) {
		socklen_t c = *len < n ? *len : n;
		memcpy(sa, &ss, c);
		*len = n;
	}
	return n;
}

static Sock *
sock_new(int domain, int type)
{
	Sock *s     = new Sock();
	s->id       = (int) N.socks->size();
	s->domain   = domain;
	s->type     = type;
	s->state    = SS_NEW;
	s->bound    = false;
	s->conn     = NULL;
	s->side     = 0;
	s->backlog  = 0;
	s->listen_shut = false;
	s->so_error = 0;
	s->connect_pending = false;
	s->pending_server  = NULL;
	s->listener = NULL;
	s->nodelay = s->keepalive = 0;
	s->refs     = 1;
	s->local.family = 0;
	s->peer.family  = 0;
	memset(s->local.ip, 0, 16);
	memset(s->peer.ip, 0, 16);
	s->local.port = s->peer.port = 0;
	N.socks->push_back(s);
	return s;
}

static Conn *
conn_new(bool tcp)
{
	Conn *c = new Conn();
	for (int i = 0; i < 2; i++) {
		Half &h       = c->h[i];
		h.inq_bytes   = 0;
		h.eof         = false;
		h.rst         = false;
		h.rst_reported = false;
		h.last_at     = 0;
		h.stalled     = false;
		h.total_rd = h.total_wr = 0;
		h.cut_rd = h.cut_wr = -1;
		h.block_rd_until = h.block_wr_until = 0;
		const sim_config *cf = sim_cfg();
		c->cap[i] = (size_t) sim_rand_range(SIM_RNG_NET, cf->sndbuf_min,
		    cf->sndbuf_max);
		if (c->cap[i] < 1)
			c->cap[i] = 1;
		c->closed[i] = c->wr_shut[i] = c->rd_shut[i] = false;
		c->segmode[i] = -1;
		c->segk[i]    = 0;
	}
	c->id     = (int) N.conns->size();
	c->is_tcp = tcp;
	N.conns->push_back(c);
	return c;
}

void
net_init(void)
{
	memset(N.fds, 0, sizeof(N.fds));
	N.evq          = new std::multimap<std::pair<uint64_t, uint64_t>, NetEv>();
	N.bound_stream = new std::map<Addr, Sock *>();
	N.bound_dgram  = new std::map<Addr, Sock *>();
	N.paths        = new std::set<std::string>();
	N.conns        = new std::vector<Conn *>();
	N.socks        = new std::vector<Sock *>();
	N.partitions   = new std::set<std::pair<uint32_t, uint32_t>>();
	N.blackholes   = new std::set<std::pair<uint32_t, uint16_t>>();
	N.next_port    = 40000;
	N.next_abstract = 1;
	N.evseq        = 0;
}

void
net_describe_fd(int fd, char *buf, size_t n)
{
	buf[0] = 0;
	if (!is_sim_fd(fd))
		return;
	FdEnt *e = ent(fd);
	if (e->kind == FK_SOCK) {
		Sock *s = (Sock *) e->obj;
		snprintf(buf, n, "sock#%d st=%d conn=%d", s->id, s->state,
		    s->conn ? s->conn->id : -1);
	} else {
		snprintf(buf, n, "kind=%d", e->kind);
	}
}

// ------------------------------------------------------------ readiness ---
static size_t
send_space(Conn *c, int side)
{
	Half  &t    = c->h[1 - side];
	size_t pend = t.rcv.size() + t.inq_bytes;
	return pend >= c->cap[side] ? 0 : c->cap[side] - pend;
}

static uint32_t
sock_revents(Sock *s)
{
	uint32_t r = 0;
	if (s->type == SOCK_DGRAM) {
		if (!s->dq.empty())
			r |= EPOLLIN;
		r |= EPOLLOUT;
		return r;
	}
	switch (s->state) {
	case SS_LISTEN:
		if (s->listen_shut)
			r |= EPOLLHUP;
		if (!s->acceptq.empty())
			r |= EPOLLIN;
		break;
	case SS_CONNECTING:
		if (!s->connect_pending) {
			// completed (only failures stay in this state)
			r |= EPOLLOUT | EPOLLERR | EPOLLHUP | EPOLLIN;
		}
		break;
	case SS_CONNECTED: {
		Conn *c  = s->conn;
		Half &me = c->h[s->side];
		uint64_t now = clk_now();
		if ((!me.rcv.empty() || me.eof || me.rst || c->rd_shut[s->side]) &&
		    now >= me.block_rd_until)
			r |= EPOLLIN;
		if ((send_space(c, s->side) > 0 || c->closed[1 - s->side] ||
		        c->h[s->side].rst) &&
		    now >= c->h[1 - s->side].block_wr_until)
			r |= EPOLLOUT;
		if (me.rst)
			r |= EPOLLERR | EPOLLHUP;
		if ((me.eof || c->rd_shut[s->side]) && c->wr_shut[s->side])
			r |= EPOLLHUP;
		break;
	}
	case SS_NEW:
	case SS_BOUND:
		r |= EPOLLHUP | EPOLLOUT; // unconnected stream socket polls HUP
		break;
	default:
		break;
	}
	return r;
}

static uint32_t
fd_revents(int fd)
{
	if (!is_sim_fd(fd))
		return 0;
	FdEnt *e = ent(fd);
	switch (e->kind) {
	case FK_EVENTFD:
		return (e->evcount > 0 ? EPOLLIN : 0) | EPOLLOUT;
	case FK_PIPE_R: {
		PipeBuf *p = (PipeBuf *) e->obj;
		uint32_t r = 0;
		if (!p->data.empty())
			r |= EPOLLIN;
		if (p->writers == 0)
			r |= EPOLLHUP;
		return r;
	}
	case FK_PIPE_W: {
		PipeBuf *p = (PipeBuf *) e->obj;
		uint32_t r = 0;
		if (p->data.size() < 65536)
			r |= EPOLLOUT;
		if (p->readers == 0)
			r |= EPOLLERR;
		return r;
	}
	case FK_SOCK:
		return sock_revents((Sock *) e->obj);
	default:
		return 0;
	}
}

static uint32_t
ep_item_ready(int fd, const EpItem &it)
{
	if (!it.armed)
		return 0;
	uint32_t r = fd_revents(fd);
	return r & ((it.events & (EPOLLIN | EPOLLOUT)) | EPOLLERR | EPOLLHUP);
}

bool
net_epoll_ready(int epfd)
{
	if (!is_sim_fd(epfd) || ent(epfd)->kind != FK_EPOLL)
		return true; // closed: wake so it can return EBADF
	Epoll *ep = (Epoll *) ent(epfd)->obj;
	for (auto &kv : ep->items)
		if (ep_item_ready(kv.first, kv.second))
			return true;
	return false;
}

bool
net_fd_ready(int fd, int dir)
{
	if (!is_sim_fd(fd))
		return true;
	uint32_t r = fd_revents(fd);
	if (dir == 0)
		return (r & (EPOLLIN | EPOLLHUP | EPOLLERR)) != 0;
	return (r & (EPOLLOUT | EPOLLHUP | EPOLLERR)) != 0;
}

uint64_t
net_next_event(void)
{
	if (N.evq->empty())
		return NO_DEADLINE;
	return N.evq->begin()->first.first;
}

bool
net_busy(void)
{
	return !N.evq->empty();
}

static void
deliver_front(Conn *c, int side)
{
	Half &h = c->h[side];
	if (h.inq.empty())
		return;
	Seg sg = h.inq.front();
	h.inq.pop_front();
	h.inq_bytes -= sg.data.size();
	N.inflight_segs--;
	if (c->closed[side] || c->rd_shut[side]) {
		// receiver gone: data vanishes.  (A real TCP would answer RST.)
		if (!sg.data.empty() && c->closed[side] && !c->h[1 - side].rst) {
			c->h[1 - side].rst = true;
		}
		return;
	}
	h.rcv += sg.data;
	if (sg.fin)
		h.eof = true;
	if (sg.rst)
		h.rst = true;
}

void
net_process_due(uint64_t now)
{
	while (!N.evq->empty() && N.evq->begin()->first.first <= now) {
		NetEv ev = N.evq->begin()->second;
		N.evq->erase(N.evq->begin());
		switch (ev.type) {
		case NE_SEG:
			if (!ev.conn->h[ev.side].stalled)
				deliver_front(ev.conn, ev.side);
			break;
		case NE_CONNECT: {
			Sock *s = ev.sock;
			if (s->state != SS_CONNECTING || !s->connect_pending)
				break;
			s->connect_pending = false;
			if (s->connect_result == 0) {
				Sock *srv = s->pending_server;
				Sock *l   = srv ? srv->listener : NULL;
				if (l == NULL || l->state != SS_LISTEN ||
				    l->listen_shut) {
					s->so_error = ECONNREFUSED;
					break;
				}
				s->state = SS_CONNECTED;
				l->acceptq.push_back(srv);
			} else {
				s->so_error = s->connect_result;
			}
			break;
		}
		case NE_DGRAM: {
			Sock *s = ev.sock;
			if (s->state != SS_CLOSED && s->dq.size() < 256)
				s->dq.push_back(ev.dg);
			break;
		}
		default:
			break;
		}
	}
}

// enqueue bytes (or FIN/RST marker) from side `side` toward the peer
static void
conn_enqueue(Conn *c, int side, const char *data, size_t n, bool fin, bool rst)
{
	Half &t = c->h[1 - side];
	const sim_config *cf = sim_cfg();
	Seg sg;
	sg.data.assign(data ? data : "", n);
	sg.fin = fin;
	sg.rst = rst;
	uint64_t now = clk_now();
	uint64_t lat = cf->lat_max_ns
	    ? sim_rand_range(SIM_RNG_NET, cf->lat_min_ns, cf->lat_max_ns)
	    : 0;
	uint64_t at = now + lat;
	if (at < t.last_at)
		at = t.last_at;
	t.last_at = at;
	sg.at     = at;
	if (lat == 0 && t.inq.empty() && !t.stalled) {
		// immediate delivery
		t.inq.push_back(sg);
		t.inq_bytes += n;
		N.inflight_segs++;
		deliver_front(c, 1 - side);
		return;
	}
	t.inq.push_back(sg);
	t.inq_bytes += n;
	N.inflight_segs++;
	if (!t.stalled) {
		NetEv ev;
		ev.type = NE_SEG;
		ev.conn = c;
		ev.side = 1 - side;
		ev.sock = NULL;
		ev_push(at, ev);
	}
}

static size_t
choose_len(Conn *c, int side, size_t maxn, bool wr)
{
	const sim_config *cf = sim_cfg();
	int  mode = c->segmode[side] >= 0 ? c->segmode[side] : cf->seg_mode;
	int  k    = c->segmode[side] >= 0 ? c->segk[side] : cf->seg_k;
	size_t n  = maxn;
	if (mode == 3)
		mode = (int) sim_rand_range(SIM_RNG_NET, 0, 2);
	if (mode == 1) {
		n = 1;
	} else if (mode == 2) {
		size_t lim = (size_t) (k > 0 ? k : 1);
		if (lim > maxn)
			lim = maxn;
		n = (size_t) sim_rand_range(SIM_RNG_NET, 1, lim);
	}
	// armed cut positions (absolute stream offsets)
	Half &h   = wr ? c->h[1 - side] : c->h[side];
	long  cut = wr ? h.cut_wr : h.cut_rd;
	uint64_t off = wr ? h.total_wr : h.total_rd;
	if (cut >= 0 && off < (uint64_t) cut && off + n > (uint64_t) cut) {
		n = (size_t) ((uint64_t) cut - off);
		sim_probe(wr ? "cut_wr_hit" : "cut_rd_hit");
	}
	if (n < maxn)
		sim_fault_fired(wr ? "short_write" : "short_read", 1);
	return n;
}

// off by default: the harness's own raw peers use plain write() on connections nng may already have closed, which is
// their business; a scenario whose raw peers go through simnet_write_* turns it on (simnet_sigpipe_fatal(1))
static bool g_sigpipe_fatal = false;
// likewise opt-in: close() of a descriptor that is not open ends the run (scenarios whose own code closes each descriptor once)
static bool g_ebadf_close_fatal = false;
extern "C" void simnet_ebadf_close_fatal(int on) { g_ebadf_close_fatal = on != 0; }
extern "C" void simnet_sigpipe_fatal(int on) { g_sigpipe_fatal = on != 0; }
// ------------------------------------------------------------ stream io ---
// EPIPE on a stream socket comes with SIGPIPE unless the call said MSG_NOSIGNAL (only send/sendmsg can), the
// calling thread has the signal blocked, or the process ignores it.  The threads are real, so their real signal
// mask is what the library set up (nng blocks SIGPIPE in its own threads; an application thread has not).
// A SIGPIPE that would be delivered kills the process: that is a crash caused by the peer (property C11).
static void
epipe(bool nosignal, const char *call)
{
	errno = EPIPE;
	sim_probe(nosignal ? "epipe_nosignal" : "epipe_plain_write");
	if (nosignal || !sim_active())
		return;
	sigset_t cur;
	struct sigaction sa;
	if (pthread_sigmask(SIG_SETMASK, NULL, &cur) != 0 || sigismember(&cur, SIGPIPE)) {
		sim_probe("epipe_sigpipe_blocked");
		return;
	}
	// (the disposition of the harness process itself - it ignores SIGPIPE for its own result pipe - is not the
	// modelled application's: nothing in nng's documentation asks an application to ignore SIGPIPE)
	(void) sa;
	sim_probe("sigpipe_would_kill");
	if (!g_sigpipe_fatal)
		return;
	sim_violation("C11", "sigpipe",
	    "%s on a connection whose peer has gone raises SIGPIPE in a thread that has not blocked it (no MSG_NOSIGNAL): "
	    "the process would be killed by its peer's disconnect",
	    call);
}

static ssize_t
stream_write(Sock *s, const struct iovec *iov, int niov, bool nosignal = true, const char *call = "write")
{
	if (s->state != SS_CONNECTED) {
		errno = s->state == SS_CONNECTING ? EAGAIN : ENOTCONN;
		if (s->state != SS_CONNECTING)
			epipe(nosignal, call);
		return -1;
	}
	Conn *c    = s->conn;
	int   side = s->side;
	if (c->wr_shut[side]) {
		epipe(nosignal, call);
		return -1;
	}
	if (c->h[side].rst) {
		errno = ECONNRESET;
		return -1;
	}
	if (c->closed[1 - side]) {
		epipe(nosignal, call);
		return -1;
	}
	size_t total = 0;
	for (int i = 0; i < niov; i++)
		total += iov[i].iov_len;
	if (total == 0)
		return 0;
	const sim_config *cf = sim_cfg();
	Half &t = c->h[1 - side];
	if (clk_now() < t.block_wr_until) {
		errno = EAGAIN;
		return -1;
	}
	size_t space = send_space(c, side);
	if (space == 0) {
		sim_fault_fired("backpressure_eagain", 1);
		errno = EAGAIN;
		return -1;
	}
	if (cf->eagain_p > 0 && sim_rand_chance(SIM_RNG_NET, cf->eagain_p)) {
		uint64_t until =
		    clk_now() + sim_rand_range(SIM_RNG_NET, 1000, 1000000);
		t.block_wr_until = until;
		NetEv ev;
		ev.type = NE_NOP;
		ev.conn = NULL;
		ev.sock = NULL;
		ev.side = 0;
		ev_push(until, ev);
		sim_fault_fired("eagain_wr", 1);
		errno = EAGAIN;
		return -1;
	}
	size_t maxn = total < space ? total : space;
	size_t n    = choose_len(c, side, maxn, true);
	std::string buf;
	buf.reserve(n);
	size_t left = n;
	for (int i = 0; i < niov && left > 0; i++) {
		size_t k = iov[i].iov_len < left ? iov[i].iov_len : left;
		buf.append((const char *) iov[i].iov_base, k);
		left -= k;
		if (left > 0 && i + 1 < niov)
			; // crosses iov boundary
	}
	if (niov > 1 && n < total)
		sim_probe("iov_partial_write");
	t.total_wr += n;
	conn_enqueue(c, side, buf.data(), n, false, false);
	return (ssize_t) n;
}

static ssize_t
stream_read(Sock *s, const struct iovec *iov, int niov)
{
	if (s->state != SS_CONNECTED) {
		errno = ENOTCONN;
		return -1;
	}
	Conn *c    = s->conn;
	int   side = s->side;
	Half &me   = c->h[side];
	size_t total = 0;
	for (int i = 0; i < niov; i++)
		total += iov[i].iov_len;
	if (c->rd_shut[side])
		return 0;
	if (clk_now() < me.block_rd_until) {
		errno = EAGAIN;
		return -1;
	}
	if (me.rcv.empty()) {
		if (me.rst && !me.rst_reported) {
			me.rst_reported = true;
			errno           = ECONNRESET;
			return -1;
		}
		if (me.eof || me.rst)
			return 0;
		errno = EAGAIN;
		return -1;
	}
	if (total == 0)
		return 0;
	const sim_config *cf = sim_cfg();
	if (cf->eagain_p > 0 && sim_rand_chance(SIM_RNG_NET, cf->eagain_p)) {
		uint64_t until =
		    clk_now() + sim_rand_range(SIM_RNG_NET, 1000, 1000000);
		me.block_rd_until = until;
		NetEv ev;
		ev.type = NE_NOP;
		ev.conn = NULL;
		ev.sock = NULL;
		ev.side = 0;
		ev_push(until, ev);
		sim_fault_fired("eagain_rd", 1);
		errno = EAGAIN;
		return -1;
	}
	size_t maxn = total < me.rcv.size() ? total : me.rcv.size();
	size_t n    = choose_len(c, side, maxn, false);
	size_t off  = 0;
	for (int i = 0; i < niov && off < n; i++) {
		size_t k = iov[i].iov_len < n - off ? iov[i].iov_len : n - off;
		memcpy(iov[i].iov_base, me.rcv.data() + off, k);
		off += k;
	}
	if (n < 8 && me.total_rd % 8 != 0)
		sim_probe("tiny_read_unaligned");
	me.rcv.erase(0, n);
	me.total_rd += n;
	return (ssize_t) n;
}

static void
sock_close(Sock *s)
{
	if (--s->refs > 0)
		return;
	int prev = s->state;
	s->state = SS_CLOSED;
	if (s->type == SOCK_DGRAM) {
		if (s->bound) {
			auto it = N.bound_dgram->find(s->local);
			if (it != N.bound_dgram->end() && it->second == s)
				N.bound_dgram->erase(it);
		}
		return;
	}
	if (prev == SS_LISTEN || prev == SS_BOUND) {
		auto it = N.bound_stream->find(s->local);
		if (it != N.bound_stream->end() && it->second == s)
			N.bound_stream->erase(it);
		// pending connections are reset
		for (Sock *p : s->acceptq) {
			Conn *c = p->conn;
			c->closed[p->side] = true;
			c->h[1 - p->side].rst = true;
		}
		s->acceptq.clear();
		return;
	}
	if (s->conn != NULL) {
		Conn *c    = s->conn;
		int   side = s->side;
		bool  unread = !c->h[side].rcv.empty() || c->h[side].inq_bytes > 0;
		c->closed[side] = true;
		if (!c->closed[1 - side]) {
			if (unread) {
				// close with unread data => peer sees a reset
				conn_enqueue(c, side, NULL, 0, false, true);
				sim_probe("close_with_unread_rst");
			} else if (!c->wr_shut[side]) {
				conn_enqueue(c, side, NULL, 0, true, false);
			}
		}
		c->wr_shut[side] = true;
		c->h[side].rcv.clear();
	}
}

// ---------------------------------------------------------------- wraps ---
extern "C" {

int     __real_close(int);
ssize_t __real_read(int, void *, size_t);
ssize_t __real_write(int, const void *, size_t);
ssize_t __real_readv(int, const struct iovec *, int);
ssize_t __real_writev(int, const struct iovec *, int);
ssize_t __real_sendmsg(int, const struct msghdr *, int);
ssize_t __real_recvmsg(int, struct msghdr *, int);
int     __real_socket(int, int, int);
int     __real_socketpair(int, int, int, int[2]);
int     __real_bind(int, const struct sockaddr *, socklen_t);
int     __real_listen(int, int);
int     __real_accept(int, struct sockaddr *, socklen_t *);
int     __real_connect(int, const struct sockaddr *, socklen_t);
int     __real_shutdown(int, int);
int     __real_getsockopt(int, int, int, void *, socklen_t *);
int     __real_setsockopt(int, int, int, const void *, socklen_t);
int     __real_getsockname(int, struct sockaddr *, socklen_t *);
int     __real_getpeername(int, struct sockaddr *, socklen_t *);
int     __real_fcntl(int, int, ...);
int     __real_pipe(int[2]);
int     __real_eventfd(unsigned, int);
int     __real_epoll_create1(int);
int     __real_epoll_ctl(int, int, int, struct epoll_event *);
int     __real_epoll_wait(int, struct epoll_event *, int, int);
int     __real_poll(struct pollfd *, nfds_t, int);
int     __real_unlink(const char *);
int     __real_chmod(const char *, mode_t);
int     __real_getaddrinfo(const char *, const char *, const struct addrinfo *,
        struct addrinfo **);
void    __real_freeaddrinfo(struct addrinfo *);

static inline void
sys_point(int fd, int op)
{
	sched_point(EV_SYSCALL, (uint32_t) (fd - FD_BASE), (uint32_t) op);
}

static bool
maybe_eintr(void)
{
	const sim_config *cf = sim_cfg();
	if (cf->eintr_p > 0 && sim_rand_chance(SIM_RNG_BUG, cf->eintr_p)) {
		sim_fault_fired("eintr", 1);
		errno = EINTR;
		return true;
	}
	return false;
}

int
__wrap_close(int fd)
{
	if (!sim_active() || !in_sim_range(fd))
		return __real_close(fd);
	if (!is_sim_fd(fd)) {
		sim_probe("ebadf_close");
		if (g_ebadf_close_fatal)
			sim_violation("C10", "descriptor_closed_twice",
			    "close(%d): the descriptor is not open (any more) - the library closed a descriptor it had already "
			    "released; had the number been handed out again in between, somebody else's connection would be gone",
			    fd);
		errno = EBADF;
		return -1;
	}
	FdEnt *e = ent(fd);
	sys_point(fd, 1);
	if (getenv("SIM_DEBUG_CLOSE") != NULL)
		sim_event("DBG close(%d) kind %d", fd, (int) e->kind);
	switch (e->kind) {
	case FK_SOCK:
		sock_close((Sock *) e->obj);
		break;
	case FK_PIPE_R:
		((PipeBuf *) e->obj)->readers--;
		break;
	case FK_PIPE_W:
		((PipeBuf *) e->obj)->writers--;
		break;
	default:
		break;
	}
	e->kind = FK_FREE;
	e->obj  = NULL;
	// remove from every epoll set
	for (int i = 0; i < FD_MAX; i++) {
		if (N.fds[i].kind == FK_EPOLL)
			((Epoll *) N.fds[i].obj)->items.erase(fd);
	}
	return 0;
}

ssize_t
__wrap_read(int fd, void *buf, size_t n)
{
	if (!sim_active() || !in_sim_range(fd))
		return __real_read(fd, buf, n);
	if (!is_sim_fd(fd)) {
		sim_probe("ebadf_read");
		errno = EBADF;
		return -1;
	}
	FdEnt *e = ent(fd);
	sys_point(fd, 2);
	if (!is_sim_fd(fd)) {
		errno = EBADF;
		return -1;
	}
	switch (e->kind) {
	case FK_EVENTFD:
		if (n < 8) {
			errno = EINVAL;
			return -1;
		}
		if (e->evcount == 0) {
			errno = EAGAIN;
			return -1;
		}
		memcpy(buf, &e->evcount, 8);
		e->evcount = 0;
		return 8;
	case FK_PIPE_R: {
		PipeBuf *p = (PipeBuf *) e->obj;
		if (p->data.empty()) {
			if (p->writers == 0)
				return 0;
			errno = EAGAIN;
			return -1;
		}
		size_t k = n < p->data.size() ? n : p->data.size();
		memcpy(buf, p->data.data(), k);
		p->data.erase(0, k);
		return (ssize_t) k;
	}
	case FK_SOCK: {
		struct iovec iov = { buf, n };
		Sock *s = (Sock *) e->obj;
		if (s->type == SOCK_DGRAM) {
			errno = EOPNOTSUPP;
			return -1;
		}
		if (maybe_eintr())
			return -1;
		return stream_read(s, &iov, 1);
	}
	default:
		errno = EINVAL;
		return -1;
	}
}

ssize_t
__wrap_write(int fd, const void *buf, size_t n)
{
	if (!sim_active() || !in_sim_range(fd))
		return __real_write(fd, buf, n);
	if (!is_sim_fd(fd)) {
		sim_probe("ebadf_write");
		errno = EBADF;
		return -1;
	}
	FdEnt *e = ent(fd);
	sys_point(fd, 3);
	if (!is_sim_fd(fd)) {
		errno = EBADF;
		return -1;
	}
	switch (e->kind) {
	case FK_EVENTFD: {
		uint64_t v;
		if (n < 8) {
			errno = EINVAL;
			return -1;
		}
		memcpy(&v, buf, 8);
		e->evcount += v;
		return 8;
	}
	case FK_PIPE_W: {
		PipeBuf *p = (PipeBuf *) e->obj;
		if (p->readers == 0) {
			errno = EPIPE;
			return -1;
		}
		if (p->data.size() + n > 65536) {
			errno = EAGAIN;
			return -1;
		}
		p->data.append((const char *) buf, n);
		return (ssize_t) n;
	}
	case FK_SOCK: {
		struct iovec iov = { (void *) buf, n };
		Sock *s = (Sock *) e->obj;
		if (maybe_eintr())
			return -1;
		return stream_write(s, &iov, 1, false, "write()");
	}
	default:
		errno = EINVAL;
		return -1;
	}
}

ssize_t
__wrap_readv(int fd, const struct iovec *iov, int niov)
{
	if (!sim_active() || !in_sim_range(fd))
		return __real_readv(fd, iov, niov);
	if (!is_sim_fd(fd) || ent(fd)->kind != FK_SOCK) {
		sim_probe("ebadf_readv");
		errno = EBADF;
		return -1;
	}
	sys_point(fd, 4);
	if (!is_sim_fd(fd)) {
		errno = EBADF;
		return -1;
	}
	if (maybe_eintr())
		return -1;
	return stream_read((Sock *) ent(fd)->obj, iov, niov);
}

ssize_t
__wrap_writev(int fd, const struct iovec *iov, int niov)
{
	if (!sim_active() || !in_sim_range(fd))
		return __real_writev(fd, iov, niov);
	if (!is_sim_fd(fd) || ent(fd)->kind != FK_SOCK) {
		errno = EBADF;
		return -1;
	}
	sys_point(fd, 5);
	if (!is_sim_fd(fd)) {
		errno = EBADF;
		return -1;
	}
	if (maybe_eintr())
		return -1;
	return stream_write((Sock *) ent(fd)->obj, iov, niov, false, "writev()");
}

static ssize_t dgram_send(Sock *s, const struct msghdr *mh);
static ssize_t dgram_recv(Sock *s, struct msghdr *mh);

ssize_t
__wrap_sendmsg(int fd, const struct msghdr *mh, int flags)
{
	if (!sim_active() || !in_sim_range(fd))
		return __real_sendmsg(fd, mh, flags);
	if (!is_sim_fd(fd) || ent(fd)->kind != FK_SOCK) {
		sim_probe("ebadf_sendmsg");
		errno = EBADF;
		return -1;
	}
	sys_point(fd, 6);
	if (!is_sim_fd(fd)) {
		errno = EBADF;
		return -1;
	}
	Sock *s = (Sock *) ent(fd)->obj;
	if (s->type == SOCK_DGRAM)
		return dgram_send(s, mh);
	if (maybe_eintr())
		return -1;
	return stream_write(s, mh->msg_iov, (int) mh->msg_iovlen, (flags & MSG_NOSIGNAL) != 0, "sendmsg() without MSG_NOSIGNAL");
}

ssize_t __wrap_recvmsg(int fd, struct msghdr *mh, int flags);
// send/recv: the library does not use them today; a change that does must still meet the simulated kernel
extern "C" ssize_t __real_send(int, const void *, size_t, int);
extern "C" ssize_t __real_recv(int, void *, size_t, int);
extern "C" ssize_t
__wrap_send(int fd, const void *buf, size_t n, int flags)
{
	if (!sim_active() || !in_sim_range(fd))
		return __real_send(fd, buf, n, flags);
	struct iovec  iov = { (void *) buf, n };
	struct msghdr mh;
	memset(&mh, 0, sizeof(mh));
	mh.msg_iov    = &iov;
	mh.msg_iovlen = 1;
	return __wrap_sendmsg(fd, &mh, flags);
}

extern "C" ssize_t
__wrap_recv(int fd, void *buf, size_t n, int flags)
{
	if (!sim_active() || !in_sim_range(fd))
		return __real_recv(fd, buf, n, flags);
	if ((flags & ~(MSG_DONTWAIT | MSG_NOSIGNAL)) != 0) {
		sim_probe("recv_flags_unsupported");
		errno = EOPNOTSUPP;
		return -1;
	}
	struct iovec  iov = { buf, n };
	struct msghdr mh;
	memset(&mh, 0, sizeof(mh));
	mh.msg_iov    = &iov;
	mh.msg_iovlen = 1;
	return __wrap_recvmsg(fd, &mh, flags);
}

ssize_t
__wrap_recvmsg(int fd, struct msghdr *mh, int flags)
{
	if (!sim_active() || !in_sim_range(fd))
		return __real_recvmsg(fd, mh, flags);
	if (!is_sim_fd(fd) || ent(fd)->kind != FK_SOCK) {
		sim_probe("ebadf_recvmsg");
		errno = EBADF;
		return -1;
	}
	sys_point(fd, 7);
	if (!is_sim_fd(fd)) {
		errno = EBADF;
		return -1;
	}
	Sock *s = (Sock *) ent(fd)->obj;
	if (s->type == SOCK_DGRAM)
		return dgram_recv(s, mh);
	if (maybe_eintr())
		return -1;
	mh->msg_flags = 0;
	return stream_read(s, mh->msg_iov, (int) mh->msg_iovlen);
}

int
__wrap_socket(int domain, int type, int proto)
{
	if (!sim_active())
		return __real_socket(domain, type, proto);
	int t = type & 0xf;
	if ((domain != AF_INET && domain != AF_INET6 && domain != AF_UNIX) ||
	    (t != SOCK_STREAM && t != SOCK_DGRAM)) {
		errno = EAFNOSUPPORT;
		return -1;
	}
	Sock *s = sock_new(domain, t);
	int   fd = fd_alloc(FK_SOCK, s);
	if (fd < 0)
		return -1;
	if (type & SOCK_NONBLOCK)
		ent(fd)->nonblock = true;
	sys_point(fd, 8);
	return fd;
}

int
__wrap_socketpair(int domain, int type, int proto, int sv[2])
{
	if (!sim_active())
		return __real_socketpair(domain, type, proto, sv);
	Sock *a = sock_new(AF_UNIX, SOCK_STREAM);
	Sock *b = sock_new(AF_UNIX, SOCK_STREAM);
	Conn *c = conn_new(false);
	a->conn = b->conn = c;
	a->side  = 0;
	b->side  = 1;
	a->state = b->state = SS_CONNECTED;
	a->local.family = b->local.family = AF_UNIX;
	a->peer.family = b->peer.family = AF_UNIX;
	sv[0] = fd_alloc(FK_SOCK, a);
	sv[1] = fd_alloc(FK_SOCK, b);
	sys_point(sv[0], 9);
	return 0;
}

static bool
ip_is_local_ok(const Addr &a)
{
	(void) a;
	return true;
}

int
__wrap_bind(int fd, const struct sockaddr *sa, socklen_t len)
{
	if (!sim_active() || !in_sim_range(fd))
		return __real_bind(fd, sa, len);
	if (!is_sim_fd(fd) || ent(fd)->kind != FK_SOCK) {
		errno = EBADF;
		return -1;
	}
	sys_point(fd, 10);
	Sock *s = (Sock *) ent(fd)->obj;
	Addr  a;
	if (!addr_from_sockaddr(&a, sa, len) || a.family != s->domain) {
		errno = EINVAL;
		return -1;
	}
	if (s->bound) {
		errno = EINVAL;
		return -1;
	}
	if (!ip_is_local_ok(a)) {
		errno = EADDRNOTAVAIL;
		return -1;
	}
	std::map<Addr, Sock *> *tab =
	    s->type == SOCK_DGRAM ? N.bound_dgram : N.bound_stream;
	if (a.family == AF_UNIX) {
		if (a.path.empty()) {
			// autobind: abstract name of 5 hex digits
			char nm[8];
			snprintf(nm, sizeof(nm), "%05x", N.next_abstract++);
			a.path.assign(1, '\0');
			a.path += nm;
		} else if (a.path[0] != 0) {
			if (N.paths->count(a.path)) {
				errno = EADDRINUSE;
				return -1;
			}
			N.paths->insert(a.path);
		}
		if (tab->count(a)) {
			errno = EADDRINUSE;
			return -1;
		}
	} else {
		if (a.port == 0) {
			for (;;) {
				a.port = N.next_port++;
				if (N.next_port < 40000)
					N.next_port = 40000;
				if (!tab->count(a))
					break;
			}
		} else {
			// exact or wildcard conflicts
			for (auto &kv : *tab) {
				if (kv.first.family == a.family &&
				    kv.first.port == a.port &&
				    (kv.first.any_ip() || a.any_ip() ||
				        !memcmp(kv.first.ip, a.ip, 16))) {
					errno = EADDRINUSE;
					return -1;
				}
			}
		}
	}
	s->local = a;
	s->bound = true;
	if (s->state == SS_NEW)
		s->state = SS_BOUND;
	(*tab)[a] = s;
	return 0;
}

int
__wrap_listen(int fd, int backlog)
{
	if (!sim_active() || !in_sim_range(fd))
		return __real_listen(fd, backlog);
	if (!is_sim_fd(fd) || ent(fd)->kind != FK_SOCK) {
		errno = EBADF;
		return -1;
	}
	sys_point(fd, 11);
	Sock *s = (Sock *) ent(fd)->obj;
	if (!s->bound) {
		errno = EDESTADDRREQ;
		return -1;
	}
	s->state   = SS_LISTEN;
	s->backlog = backlog;
	return 0;
}

static Sock *
find_listener(const Addr &a)
{
	auto it = N.bound_stream->find(a);
	if (it != N.bound_stream->end())
		return it->second;
	if (a.family != AF_UNIX) {
		for (auto &kv : *N.bound_stream) {
			if (kv.first.family == a.family && kv.first.port == a.port &&
			    kv.first.any_ip())
				return kv.second;
		}
	}
	return NULL;
}

static bool
partitioned(const Addr &a, const Addr &b)
{
	uint32_t x = ip4_of(a), y = ip4_of(b);
	return N.partitions->count(std::make_pair(x, y)) ||
	    N.partitions->count(std::make_pair(y, x));
}

int
__wrap_accept(int fd, struct sockaddr *sa, socklen_t *len)
{
	if (!sim_active() || !in_sim_range(fd))
		return __real_accept(fd, sa, len);
	if (!is_sim_fd(fd) || ent(fd)->kind != FK_SOCK) {
		sim_probe("ebadf_accept");
		errno = EBADF;
		return -1;
	}
	sys_point(fd, 12);
	if (!is_sim_fd(fd)) {
		errno = EBADF;
		return -1;
	}
	Sock *l = (Sock *) ent(fd)->obj;
	if (l->state != SS_LISTEN || l->listen_shut) {
		errno = EINVAL;
		return -1;
	}
	if (l->acceptq.empty()) {
		errno = EAGAIN;
		return -1;
	}
	const sim_config *cf = sim_cfg();
	if (cf->accept_err_p > 0 &&
	    sim_rand_chance(SIM_RNG_BUG, cf->accept_err_p)) {
		static const int errs[] = { ECONNABORTED, EMFILE, ENFILE, ENOMEM,
			ECONNABORTED };
		int e = errs[sim_rand(SIM_RNG_BUG) % 5];
		if (e == ECONNABORTED) {
			Sock *p = l->acceptq.front();
			l->acceptq.pop_front();
			p->conn->closed[p->side] = true;
			p->conn->h[1 - p->side].rst = true;
		}
		sim_fault_fired(e == ECONNABORTED ? "accept_econnaborted"
		                                  : "accept_emfile",
		    1);
		errno = e;
		return -1;
	}
	Sock *p = l->acceptq.front();
	l->acceptq.pop_front();
	int nfd = fd_alloc(FK_SOCK, p);
	if (nfd < 0) {
		l->acceptq.push_front(p);
		return -1;
	}
	p->state = SS_CONNECTED;
	if (sa && len)
		addr_to_sockaddr(p->peer, sa, len);
	return nfd;
}

int
__wrap_connect(int fd, const struct sockaddr *sa, socklen_t len)
{
	if (!sim_active() || !in_sim_range(fd))
		return __real_connect(fd, sa, len);
	if (!is_sim_fd(fd) || ent(fd)->kind != FK_SOCK) {
		errno = EBADF;
		return -1;
	}
	sys_point(fd, 13);
	Sock *s = (Sock *) ent(fd)->obj;
	Addr  a;
	if (!addr_from_sockaddr(&a, sa, len) || a.family != s->domain) {
		errno = EAFNOSUPPORT;
		return -1;
	}
	if (s->type == SOCK_DGRAM) {
		s->peer = a;
		return 0;
	}
	if (s->state == SS_CONNECTED) {
		errno = EISCONN;
		return -1;
	}
	if (s->state == SS_CONNECTING) {
		errno = EALREADY;
		return -1;
	}
	if (N.connect_hook)
		N.connect_hook(sa, len, clk_now());
	const sim_config *cf = sim_cfg();
	s->peer = a;
	if (!s->bound) {
		s->local.family = s->domain;
		if (s->domain == AF_INET) {
			// dialers live on 127.0.0.1 unless bound
			memset(s->local.ip, 0, 16);
			if (a.ip[0] == 10) {
				s->local.ip[0] = 10;
				s->local.ip[3] = 250;
			} else {
				s->local.ip[0] = 127;
				s->local.ip[3] = 1;
			}
			s->local.port = N.next_port++;
		} else if (s->domain == AF_INET6) {
			memset(s->local.ip, 0, 16);
			s->local.ip[15] = 1;
			s->local.port   = N.next_port++;
		}
	}
	Sock *l = find_listener(a);
	if (s->domain == AF_UNIX) {
		if (l == NULL || l->state != SS_LISTEN || l->listen_shut) {
			if (a.path.size() && a.path[0] != 0 &&
			    !N.paths->count(a.path))
				errno = ENOENT;
			else
				errno = ECONNREFUSED;
			return -1;
		}
		if ((int) l->acceptq.size() >= (l->backlog > 0 ? l->backlog : 1)) {
			errno = EAGAIN;
			return -1;
		}
		// the backlog may also be full of other processes' connections at any time
		if (cf->unix_backlog_full_p > 0 && sim_rand_chance(SIM_RNG_BUG, cf->unix_backlog_full_p)) {
			sim_fault_fired("unix_connect_eagain", 1);
			errno = EAGAIN;
			return -1;
		}
	}
	bool hole = false;
	if (s->domain == AF_INET) {
		if (N.blackholes->count(std::make_pair(ip4_of(a), a.port)) ||
		    N.blackholes->count(std::make_pair(ip4_of(a), (uint16_t) 0)) ||
		    partitioned(s->local, a))
			hole = true;
	}
	uint64_t delay = cf->conn_delay_max_ns
	    ? sim_rand_range(SIM_RNG_NET, 0, cf->conn_delay_max_ns)
	    : 0;
	if (s->domain == AF_UNIX)
		delay = 0; // Linux: connect() on a unix stream socket is synchronous
	if (hole) {
		// SYN vanishes: fails with ETIMEDOUT after a long time
		s->state           = SS_CONNECTING;
		s->connect_pending = true;
		s->connect_result  = ETIMEDOUT;
		NetEv ev;
		ev.type = NE_CONNECT;
		ev.sock = s;
		ev.conn = NULL;
		ev.side = 0;
		ev_push(clk_now() + 127ull * 1000000000ull, ev);
		sim_fault_fired("connect_blackhole", 1);
		errno = EINPROGRESS;
		return -1;
	}
	if (l == NULL || l->state != SS_LISTEN || l->listen_shut) {
		// refused
		if (delay == 0 && s->domain != AF_UNIX &&
		    sim_rand_chance(SIM_RNG_NET, 0.5)) {
			errno = ECONNREFUSED;
			return -1;
		}
		s->state           = SS_CONNECTING;
		s->connect_pending = true;
		s->connect_result  = ECONNREFUSED;
		NetEv ev;
		ev.type = NE_CONNECT;
		ev.sock = s;
		ev.conn = NULL;
		ev.side = 0;
		ev_push(clk_now() + delay, ev);
		errno = EINPROGRESS;
		return -1;
	}
	if (s->domain != AF_UNIX &&
	    (int) l->acceptq.size() >= (l->backlog > 0 ? l->backlog : 1)) {
		// backlog overflow: SYN dropped
		s->state           = SS_CONNECTING;
		s->connect_pending = true;
		s->connect_result  = ETIMEDOUT;
		NetEv ev;
		ev.type = NE_CONNECT;
		ev.sock = s;
		ev.conn = NULL;
		ev.side = 0;
		ev_push(clk_now() + 127ull * 1000000000ull, ev);
		errno = EINPROGRESS;
		return -1;
	}
	// create the connection
	Conn *c   = conn_new(s->domain != AF_UNIX);
	Sock *srv = sock_new(s->domain, SOCK_STREAM);
	srv->conn = c;
	srv->side = 1;
	srv->local = l->local;
	if (srv->local.family != AF_UNIX && srv->local.any_ip())
		memcpy(srv->local.ip, a.ip, 16);
	srv->peer     = s->local;
	srv->listener = l;
	srv->state    = SS_CONNECTING; // until accepted
	srv->refs     = 0;             // no fd yet
	srv->refs     = 1;
	s->conn       = c;
	s->side       = 0;
	c->addr[0]    = s->local;
	c->addr[1]    = srv->local;
	if (delay == 0) {
		s->state = SS_CONNECTED;
		l->acceptq.push_back(srv);
		if (s->domain == AF_UNIX || sim_rand_chance(SIM_RNG_NET, 0.3)) {
			sim_probe("connect_immediate");
			return 0;
		}
		errno = EINPROGRESS;
		return -1;
	}
	s->state           = SS_CONNECTING;
	s->connect_pending = true;
	s->connect_result  = 0;
	s->pending_server  = srv;
	NetEv ev;
	ev.type = NE_CONNECT;
	ev.sock = s;
	ev.conn = NULL;
	ev.side = 0;
	ev_push(clk_now() + delay, ev);
	errno = EINPROGRESS;
	return -1;
}

int
__wrap_shutdown(int fd, int how)
{
	if (!sim_active() || !in_sim_range(fd))
		return __real_shutdown(fd, how);
	if (!is_sim_fd(fd) || ent(fd)->kind != FK_SOCK) {
		errno = is_sim_fd(fd) ? ENOTSOCK : EBADF;
		return -1;
	}
	sys_point(fd, 14);
	Sock *s = (Sock *) ent(fd)->obj;
	if (s->type == SOCK_DGRAM)
		return 0;
	if (s->state == SS_LISTEN) {
		s->listen_shut = true;
		// pending connections are reset
		for (Sock *p : s->acceptq) {
			p->conn->closed[p->side] = true;
			p->conn->h[1 - p->side].rst = true;
		}
		s->acceptq.clear();
		return 0;
	}
	if (s->state != SS_CONNECTED) {
		errno = ENOTCONN;
		return -1;
	}
	Conn *c    = s->conn;
	int   side = s->side;
	if ((how == SHUT_WR || how == SHUT_RDWR) && !c->wr_shut[side]) {
		c->wr_shut[side] = true;
		if (!c->closed[1 - side])
			conn_enqueue(c, side, NULL, 0, true, false);
	}
	if (how == SHUT_RD || how == SHUT_RDWR)
		c->rd_shut[side] = true;
	return 0;
}

int
__wrap_getsockopt(int fd, int level, int opt, void *val, socklen_t *len)
{
	if (!sim_active() || !in_sim_range(fd))
		return __real_getsockopt(fd, level, opt, val, len);
	if (!is_sim_fd(fd) || ent(fd)->kind != FK_SOCK) {
		errno = EBADF;
		return -1;
	}
	sys_point(fd, 15);
	Sock *s = (Sock *) ent(fd)->obj;
	int   v = 0;
	if (level == SOL_SOCKET && opt == SO_ERROR) {
		if (s->state == SS_CONNECTING && s->connect_pending)
			v = 0;
		else
			v = s->so_error;
		s->so_error = 0;
	} else if (level == SOL_SOCKET && opt == SO_KEEPALIVE) {
		v = s->keepalive;
	} else if (level == IPPROTO_TCP && opt == TCP_NODELAY) {
		v = s->nodelay;
	} else if (level == SOL_SOCKET && opt == SO_PEERCRED) {
		struct ucred uc;
		uc.pid = 4242;
		uc.uid = 1000;
		uc.gid = 1000;
		if (*len < sizeof(uc)) {
			errno = EINVAL;
			return -1;
		}
		memcpy(val, &uc, sizeof(uc));
		*len = sizeof(uc);
		return 0;
	} else if (level == SOL_SOCKET && opt == SO_TYPE) {
		v = s->type;
	} else {
		errno = ENOPROTOOPT;
		return -1;
	}
	if (*len >= sizeof(int)) {
		memcpy(val, &v, sizeof(int));
		*len = sizeof(int);
	}
	return 0;
}

int
__wrap_setsockopt(int fd, int level, int opt, const void *val, socklen_t len)
{
	if (!sim_active() || !in_sim_range(fd))
		return __real_setsockopt(fd, level, opt, val, len);
	if (!is_sim_fd(fd) || ent(fd)->kind != FK_SOCK) {
		errno = EBADF;
		return -1;
	}
	Sock *s = (Sock *) ent(fd)->obj;
	int   v = 0;
	if (len >= sizeof(int))
		memcpy(&v, val, sizeof(int));
	if (level == SOL_SOCKET && opt == SO_KEEPALIVE)
		s->keepalive = v != 0;
	else if (level == IPPROTO_TCP && opt == TCP_NODELAY)
		s->nodelay = v != 0;
	return 0;
}

int
__wrap_getsockname(int fd, struct sockaddr *sa, socklen_t *len)
{
	if (!sim_active() || !in_sim_range(fd))
		return __real_getsockname(fd, sa, len);
	if (!is_sim_fd(fd) || ent(fd)->kind != FK_SOCK) {
		errno = EBADF;
		return -1;
	}
	Sock *s = (Sock *) ent(fd)->obj;
	Addr  a = s->local;
	if (a.family == 0)
		a.family = s->domain;
	addr_to_sockaddr(a, sa, len);
	return 0;
}

int
__wrap_getpeername(int fd, struct sockaddr *sa, socklen_t *len)
{
	if (!sim_active() || !in_sim_range(fd))
		return __real_getpeername(fd, sa, len);
	if (!is_sim_fd(fd) || ent(fd)->kind != FK_SOCK) {
		errno = EBADF;
		return -1;
	}
	Sock *s = (Sock *) ent(fd)->obj;
	if (s->state != SS_CONNECTED && s->type != SOCK_DGRAM) {
		errno = ENOTCONN;
		return -1;
	}
	Addr a = s->peer;
	if (a.family == 0)
		a.family = s->domain;
	addr_to_sockaddr(a, sa, len);
	return 0;
}

int
__wrap_fcntl(int fd, int cmd, ...)
{
	va_list ap;
	va_start(ap, cmd);
	long arg = va_arg(ap, long);
	va_end(ap);
	if (!sim_active() || !in_sim_range(fd))
		return __real_fcntl(fd, cmd, arg);
	if (!is_sim_fd(fd)) {
		errno = EBADF;
		return -1;
	}
	FdEnt *e = ent(fd);
	switch (cmd) {
	case F_SETFL:
		e->nonblock = (arg & O_NONBLOCK) != 0;
		return 0;
	case F_GETFL:
		return O_RDWR | (e->nonblock ? O_NONBLOCK : 0);
	case F_SETFD:
		return 0;
	case F_GETFD:
		return FD_CLOEXEC;
	default:
		errno = EINVAL;
		return -1;
	}
}

int
__wrap_pipe(int fds[2])
{
	if (!sim_active())
		return __real_pipe(fds);
	PipeBuf *p = new PipeBuf();
	p->readers = p->writers = 1;
	fds[0] = fd_alloc(FK_PIPE_R, p);
	fds[1] = fd_alloc(FK_PIPE_W, p);
	if (fds[0] < 0 || fds[1] < 0)
		return -1;
	sys_point(fds[0], 16);
	return 0;
}

int
__wrap_eventfd(unsigned init, int flags)
{
	if (!sim_active())
		return __real_eventfd(init, flags);
	int fd = fd_alloc(FK_EVENTFD, NULL);
	if (fd < 0)
		return -1;
	ent(fd)->evcount  = init;
	ent(fd)->nonblock = (flags & EFD_NONBLOCK) != 0;
	sys_point(fd, 17);
	return fd;
}

int
__wrap_epoll_create1(int flags)
{
	if (!sim_active())
		return __real_epoll_create1(flags);
	Epoll *ep = new Epoll();
	int    fd = fd_alloc(FK_EPOLL, ep);
	if (fd >= 0)
		sys_point(fd, 18);
	return fd;
}

int
__wrap_epoll_ctl(int epfd, int op, int fd, struct epoll_event *ev)
{
	if (!sim_active() || !in_sim_range(epfd))
		return __real_epoll_ctl(epfd, op, fd, ev);
	if (!is_sim_fd(epfd) || ent(epfd)->kind != FK_EPOLL) {
		errno = EBADF;
		return -1;
	}
	sys_point(epfd, 19 + op);
	if (!is_sim_fd(epfd) || ent(epfd)->kind != FK_EPOLL) {
		errno = EBADF;
		return -1;
	}
	Epoll *ep = (Epoll *) ent(epfd)->obj;
	if (!is_sim_fd(fd)) {
		sim_probe("ebadf_epoll_ctl");
		errno = EBADF;
		return -1;
	}
	auto it = ep->items.find(fd);
	switch (op) {
	case EPOLL_CTL_ADD:
		if (it != ep->items.end()) {
			errno = EEXIST;
			return -1;
		}
		ep->items[fd] = EpItem{ ev->events, ev->data.u64, true };
		return 0;
	case EPOLL_CTL_MOD:
		if (it == ep->items.end()) {
			errno = ENOENT;
			return -1;
		}
		it->second = EpItem{ ev->events, ev->data.u64, true };
		return 0;
	case EPOLL_CTL_DEL:
		if (it == ep->items.end()) {
			errno = ENOENT;
			return -1;
		}
		ep->items.erase(it);
		return 0;
	}
	errno = EINVAL;
	return -1;
}

int
__wrap_epoll_wait(int epfd, struct epoll_event *evs, int maxev, int timeout)
{
	if (!sim_active() || !in_sim_range(epfd))
		return __real_epoll_wait(epfd, evs, maxev, timeout);
	const sim_config *cf = sim_cfg();
	uint64_t deadline = timeout < 0
	    ? NO_DEADLINE
	    : clk_now() + (uint64_t) timeout * 1000000ull;
	sys_point(epfd, 30);
	for (;;) {
		if (!is_sim_fd(epfd) || ent(epfd)->kind != FK_EPOLL) {
			errno = EBADF;
			return -1;
		}
		Epoll *ep = (Epoll *) ent(epfd)->obj;
		int    fds[256];
		uint32_t rev[256];
		int    n = 0;
		for (auto &kv : ep->items) {
			uint32_t r = ep_item_ready(kv.first, kv.second);
			if (r && n < 256) {
				fds[n] = kv.first;
				rev[n] = r;
				n++;
			}
		}
		if (n > 0) {
			if (maybe_eintr())
				return -1;
			// seeded order (shuffle) and optional strict subset
			for (int i = n - 1; i > 0; i--) {
				int j = (int) (sim_rand(SIM_RNG_SCHED) % (uint64_t) (i + 1));
				int tf = fds[i]; fds[i] = fds[j]; fds[j] = tf;
				uint32_t tr = rev[i]; rev[i] = rev[j]; rev[j] = tr;
			}
			int take = n;
			if (n > 1 && cf->epoll_partial_p > 0 &&
			    sim_rand_chance(SIM_RNG_BUG, cf->epoll_partial_p)) {
				take = (int) sim_rand_range(SIM_RNG_BUG, 1, (uint64_t) n - 1);
				sim_fault_fired("epoll_partial", 1);
			}
			if (take > maxev)
				take = maxev;
			for (int i = 0; i < take; i++) {
				EpItem &it = ep->items[fds[i]];
				evs[i].events   = rev[i];
				evs[i].data.u64 = it.data;
				if (it.events & EPOLLONESHOT)
					it.armed = false;
			}
			return take;
		}
		if (timeout == 0 || clk_now() >= deadline)
			return 0;
		sim_block_epoll(epfd, deadline);
	}
}

int
__wrap_poll(struct pollfd *pfds, nfds_t n, int timeout)
{
	bool any_sim = false;
	if (sim_active())
		for (nfds_t i = 0; i < n; i++)
			if (in_sim_range(pfds[i].fd))
				any_sim = true;
	if (!any_sim)
		return __real_poll(pfds, n, timeout);
	uint64_t deadline = timeout < 0
	    ? NO_DEADLINE
	    : clk_now() + (uint64_t) timeout * 1000000ull;
	sched_point(EV_SYSCALL, 0, 31);
	for (;;) {
		int cnt = 0;
		for (nfds_t i = 0; i < n; i++) {
			pfds[i].revents = 0;
			if (!in_sim_range(pfds[i].fd))
				continue;
			if (!is_sim_fd(pfds[i].fd)) {
				pfds[i].revents = POLLNVAL;
				cnt++;
				continue;
			}
			uint32_t r = fd_revents(pfds[i].fd);
			short    o = 0;
			if ((r & EPOLLIN) && (pfds[i].events & POLLIN))
				o |= POLLIN;
			if ((r & EPOLLOUT) && (pfds[i].events & POLLOUT))
				o |= POLLOUT;
			if (r & EPOLLHUP)
				o |= POLLHUP;
			if (r & EPOLLERR)
				o |= POLLERR;
			pfds[i].revents = o;
			if (o)
				cnt++;
		}
		if (cnt > 0 || timeout == 0 || clk_now() >= deadline)
			return cnt;
		// single-fd fast path blocks properly; otherwise poll in 1 ms steps
		if (n == 1)
			sim_block_io(pfds[0].fd, (pfds[0].events & POLLOUT) ? 1 : 0,
			    deadline);
		else
			sim_sleep_ms(1);
	}
}

int
__wrap_unlink(const char *path)
{
	if (sim_active() && N.paths && N.paths->count(path)) {
		N.paths->erase(path);
		// listener on that path stays reachable only via existing fds
		Addr a;
		a.family = AF_UNIX;
		memset(a.ip, 0, 16);
		a.port = 0;
		a.path = path;
		N.bound_stream->erase(a);
		return 0;
	}
	if (sim_active() && path && !strncmp(path, "/sim/", 5)) {
		errno = ENOENT;
		return -1;
	}
	return __real_unlink(path);
}

int
__wrap_chmod(const char *path, mode_t mode)
{
	if (sim_active() && N.paths && N.paths->count(path))
		return 0;
	return __real_chmod(path, mode);
}

// -------------------------------------------------------------- resolver ---
struct SimAI {
	struct addrinfo         ai;
	struct sockaddr_storage ss;
	uint32_t                magic;
};

int
__wrap_getaddrinfo(const char *host, const char *serv,
    const struct addrinfo *hints, struct addrinfo **res)
{
	if (!sim_active())
		return __real_getaddrinfo(host, serv, hints, res);
	sched_point(EV_SYSCALL, 0, 40);
	int family = hints ? hints->ai_family : AF_UNSPEC;
	int port   = serv ? atoi(serv) : 0;
	uint8_t ip[16];
	int     fam = 0;
	memset(ip, 0, 16);
	if (host == NULL) {
		fam = family == AF_INET6 ? AF_INET6 : AF_INET;
		if (!(hints && (hints->ai_flags & AI_PASSIVE))) {
			if (fam == AF_INET) {
				ip[0] = 127;
				ip[3] = 1;
			} else {
				ip[15] = 1;
			}
		}
	} else if (inet_pton(AF_INET, host, ip) == 1) {
		fam = AF_INET;
	} else if (inet_pton(AF_INET6, host, ip) == 1) {
		fam = AF_INET6;
	} else {
		// names: blocking lookup takes (virtual) time
		sim_sleep_ns(sim_rand_range(SIM_RNG_NET, 0, 3000000));
		if (!strcmp(host, "localhost")) {
			fam = family == AF_INET6 ? AF_INET6 : AF_INET;
			memset(ip, 0, 16);
			if (fam == AF_INET) {
				ip[0] = 127;
				ip[3] = 1;
			} else {
				ip[15] = 1;
			}
		} else if (strlen(host) > 4 &&
		    !strcmp(host + strlen(host) - 4, ".sim")) {
			// nodeN.sim -> 10.0.0.N
			fam = AF_INET;
			memset(ip, 0, 16);
			ip[0] = 10;
			int k = 1;
			for (const char *p = host; *p; p++)
				if (*p >= '0' && *p <= '9') {
					k = atoi(p);
					break;
				}
			ip[3] = (uint8_t) k;
		} else if (!strcmp(host, "again.test")) {
			return EAI_AGAIN;
		} else {
			return EAI_NONAME;
		}
	}
	if (family != AF_UNSPEC && family != fam)
		return EAI_NONAME; // EAI_ADDRFAMILY
	SimAI *a = (SimAI *) calloc(1, sizeof(SimAI));
	if (a == NULL)
		return EAI_MEMORY;
	a->magic          = 0x51a1;
	a->ai.ai_family   = fam;
	a->ai.ai_socktype = hints ? hints->ai_socktype : SOCK_STREAM;
	a->ai.ai_addr     = (struct sockaddr *) &a->ss;
	if (fam == AF_INET) {
		struct sockaddr_in *in = (struct sockaddr_in *) &a->ss;
		in->sin_family         = AF_INET;
		memcpy(&in->sin_addr, ip, 4);
		in->sin_port      = htons((uint16_t) port);
		a->ai.ai_addrlen = sizeof(*in);
	} else {
		struct sockaddr_in6 *in = (struct sockaddr_in6 *) &a->ss;
		in->sin6_family         = AF_INET6;
		memcpy(&in->sin6_addr, ip, 16);
		in->sin6_port     = htons((uint16_t) port);
		a->ai.ai_addrlen = sizeof(*in);
	}
	*res = &a->ai;
	return 0;
}

void
__wrap_freeaddrinfo(struct addrinfo *ai)
{
	if (ai == NULL)
		return;
	SimAI *a = (SimAI *) ai;
	if (a->magic == 0x51a1 && ai->ai_addr == (struct sockaddr *) &a->ss) {
		free(a);
		return;
	}
	__real_freeaddrinfo(ai);
}

} // extern "C"

// ---------------------------------------------------------------- dgram ---
double simnet_dgram_loss_p, simnet_dgram_dup_p, simnet_dgram_reorder_p;

static ssize_t
dgram_send(Sock *s, const struct msghdr *mh)
{
	Addr to;
	if (mh->msg_name != NULL) {
		if (!addr_from_sockaddr(&to, mh->msg_name, mh->msg_namelen)) {
			errno = EINVAL;
			return -1;
		}
	} else if (s->peer.family != 0) {
		to = s->peer;
	} else {
		errno = EDESTADDRREQ;
		return -1;
	}
	if (!s->bound) {
		// implicit bind
		s->local.family = s->domain;
		memset(s->local.ip, 0, 16);
		s->local.port = N.next_port++;
		s->bound      = true;
		(*N.bound_dgram)[s->local] = s;
	}
	Dgram d;
	for (size_t i = 0; i < mh->msg_iovlen; i++)
		d.data.append((const char *) mh->msg_iov[i].iov_base,
		    mh->msg_iov[i].iov_len);
	size_t n = d.data.size();
	if (n > 65507) {
		errno = EMSGSIZE;
		return -1;
	}
	d.from = s->local;
	if (d.from.family != AF_UNIX && d.from.any_ip()) {
		// source address as seen by the receiver
		if (to.family == AF_INET) {
			memcpy(d.from.ip, to.ip, 4);
			if (to.any_ip()) {
				d.from.ip[0] = 127;
				d.from.ip[3] = 1;
			}
		} else {
			memcpy(d.from.ip, to.ip, 16);
		}
	}
	// find the destination
	Sock *dst = NULL;
	auto  it  = N.bound_dgram->find(to);
	if (it != N.bound_dgram->end())
		dst = it->second;
	else
		for (auto &kv : *N.bound_dgram)
			if (kv.first.family == to.family && kv.first.port == to.port &&
			    kv.first.any_ip()) {
				dst = kv.second;
				break;
			}
	if (dst == NULL)
		return (ssize_t) n; // vanishes (ICMP unreachable not modelled)
	const sim_config *cf = sim_cfg();
	if (simnet_dgram_loss_p > 0 &&
	    sim_rand_chance(SIM_RNG_NET, simnet_dgram_loss_p)) {
		sim_fault_fired("dgram_loss", 1);
		return (ssize_t) n;
	}
	int copies = 1;
	if (simnet_dgram_dup_p > 0 &&
	    sim_rand_chance(SIM_RNG_NET, simnet_dgram_dup_p)) {
		copies = 2;
		sim_fault_fired("dgram_dup", 1);
	}
	for (int i = 0; i < copies; i++) {
		uint64_t lat = cf->lat_max_ns
		    ? sim_rand_range(SIM_RNG_NET, cf->lat_min_ns, cf->lat_max_ns)
		    : 0;
		if (simnet_dgram_reorder_p > 0 &&
		    sim_rand_chance(SIM_RNG_NET, simnet_dgram_reorder_p)) {
			lat += sim_rand_range(SIM_RNG_NET, 100000, 5000000);
			sim_fault_fired("dgram_reorder", 1);
		}
		NetEv ev;
		ev.type = NE_DGRAM;
		ev.sock = dst;
		ev.conn = NULL;
		ev.side = 0;
		ev.dg   = d;
		ev_push(clk_now() + lat, ev);
	}
	return (ssize_t) n;
}

static ssize_t
dgram_recv(Sock *s, struct msghdr *mh)
{
	if (s->dq.empty()) {
		errno = EAGAIN;
		return -1;
	}
	Dgram d = s->dq.front();
	s->dq.pop_front();
	size_t off = 0;
	for (size_t i = 0; i < mh->msg_iovlen && off < d.data.size(); i++) {
		size_t k = mh->msg_iov[i].iov_len < d.data.size() - off
		    ? mh->msg_iov[i].iov_len
		    : d.data.size() - off;
		memcpy(mh->msg_iov[i].iov_base, d.data.data() + off, k);
		off += k;
	}
	mh->msg_flags = off < d.data.size() ? MSG_TRUNC : 0;
	if (mh->msg_name != NULL) {
		socklen_t l = mh->msg_namelen;
		addr_to_sockaddr(d.from, mh->msg_name, &l);
		mh->msg_namelen = l;
	}
	mh->msg_controllen = 0;
	return (ssize_t) off;
}

// ------------------------------------------------- harness-facing calls ---
extern "C" {

int
simnet_socket(int domain, int type)
{
	return __wrap_socket(domain, type, 0);
}

int
simnet_connect_blocking(int fd, const void *sa, unsigned salen,
    uint64_t timeout_ns)
{
	int rv = __wrap_connect(fd, (const struct sockaddr *) sa, salen);
	if (rv == 0)
		return 0;
	if (errno != EINPROGRESS)
		return -1;
	uint64_t dl = timeout_ns ? clk_now() + timeout_ns : NO_DEADLINE;
	Sock    *s  = (Sock *) ent(fd)->obj;
	while (s->state == SS_CONNECTING && s->connect_pending) {
		if (sim_block_io(fd, 1, dl) < 0) {
			errno = ETIMEDOUT;
			return -1;
		}
	}
	if (s->state == SS_CONNECTED)
		return 0;
	errno = s->so_error ? s->so_error : ECONNREFUSED;
	return -1;
}

int
simnet_accept_blocking(int fd, uint64_t timeout_ns)
{
	uint64_t dl = timeout_ns ? clk_now() + timeout_ns : NO_DEADLINE;
	for (;;) {
		int nfd = __wrap_accept(fd, NULL, NULL);
		if (nfd >= 0 || errno != EAGAIN)
			return nfd;
		if (sim_block_io(fd, 0, dl) < 0) {
			errno = ETIMEDOUT;
			return -1;
		}
	}
}

long
simnet_read_blocking(int fd, void *buf, size_t n, uint64_t timeout_ns)
{
	uint64_t dl = timeout_ns ? clk_now() + timeout_ns : NO_DEADLINE;
	for (;;) {
		ssize_t r = __wrap_read(fd, buf, n);
		if (r >= 0)
			return r;
		if (errno == EINTR)
			continue;
		if (errno != EAGAIN)
			return -1;
		if (sim_block_io(fd, 0, dl) < 0) {
			errno = ETIMEDOUT;
			return -1;
		}
	}
}

long
simnet_write_blocking(int fd, const void *buf, size_t n, uint64_t timeout_ns)
{
	uint64_t dl = timeout_ns ? clk_now() + timeout_ns : NO_DEADLINE;
	for (;;) {
		ssize_t r = __wrap_write(fd, buf, n);
		if (r >= 0)
			return r;
		if (errno == EINTR)
			continue;
		if (errno != EAGAIN)
			return -1;
		if (sim_block_io(fd, 1, dl) < 0) {
			errno = ETIMEDOUT;
			return -1;
		}
	}
}

long
simnet_read_full(int fd, void *buf, size_t n, uint64_t timeout_ns)
{
	size_t off = 0;
	while (off < n) {
		long r = simnet_read_blocking(fd, (char *) buf + off, n - off,
		    timeout_ns);
		if (r <= 0)
			break;
		off += (size_t) r;
	}
	return (long) off;
}

long
simnet_write_full(int fd, const void *buf, size_t n, uint64_t timeout_ns)
{
	size_t off = 0;
	while (off < n) {
		long r = simnet_write_blocking(fd, (const char *) buf + off,
		    n - off, timeout_ns);
		if (r <= 0)
			return off ? (long) off : -1;
		off += (size_t) r;
	}
	return (long) off;
}

void
simnet_reset(int fd)
{
	if (!is_sim_fd(fd) || ent(fd)->kind != FK_SOCK)
		return;
	Sock *s = (Sock *) ent(fd)->obj;
	if (s->conn != NULL && s->state == SS_CONNECTED) {
		Conn *c = s->conn;
		c->h[1 - s->side].rst = true; // immediate, not queued behind data
		c->closed[s->side]    = true;
		c->h[s->side].rcv.clear();
		sim_fault_fired("conn_reset", 1);
	}
	s->conn = NULL; // close below sends nothing more
	__wrap_close(fd);
}

void
simnet_set_cut(int fd, int dir, long offset)
{
	if (!is_sim_fd(fd) || ent(fd)->kind != FK_SOCK)
		return;
	Sock *s = (Sock *) ent(fd)->obj;
	if (!s->conn)
		return;
	if (dir == 0)
		s->conn->h[s->side].cut_rd = offset;
	else
		s->conn->h[1 - s->side].cut_wr = offset;
}

void
simnet_set_seg(int fd, int mode, int k)
{
	if (!is_sim_fd(fd) || ent(fd)->kind != FK_SOCK)
		return;
	Sock *s = (Sock *) ent(fd)->obj;
	if (!s->conn)
		return;
	s->conn->segmode[s->side] = mode;
	s->conn->segk[s->side]    = k;
}

void
simnet_set_cut_peer(int fd, int dir, long offset)
{
	if (!is_sim_fd(fd) || ent(fd)->kind != FK_SOCK)
		return;
	Sock *s = (Sock *) ent(fd)->obj;
	if (!s->conn)
		return;
	if (dir == 0)
		s->conn->h[1 - s->side].cut_rd = offset;
	else
		s->conn->h[s->side].cut_wr = offset;
}

void
simnet_set_seg_peer(int fd, int mode, int k)
{
	if (!is_sim_fd(fd) || ent(fd)->kind != FK_SOCK)
		return;
	Sock *s = (Sock *) ent(fd)->obj;
	if (!s->conn)
		return;
	s->conn->segmode[1 - s->side] = mode;
	s->conn->segk[1 - s->side]    = k;
}

static void
release_half(Conn *c, int side)
{
	Half &h = c->h[side];
	h.stalled = false;
	uint64_t now = clk_now();
	for (size_t i = 0; i < h.inq.size(); i++) {
		NetEv ev;
		ev.type = NE_SEG;
		ev.conn = c;
		ev.side = side;
		ev.sock = NULL;
		uint64_t at = h.inq[i].at < now ? now : h.inq[i].at;
		ev_push(at, ev);
	}
}

void
simnet_stall_conn(int fd, int dir, int on)
{
	if (!is_sim_fd(fd) || ent(fd)->kind != FK_SOCK)
		return;
	Sock *s = (Sock *) ent(fd)->obj;
	if (!s->conn)
		return;
	// dir 0: data flowing to me; dir 1: data flowing to my peer
	int side = dir == 0 ? s->side : 1 - s->side;
	if (on) {
		s->conn->h[side].stalled = true;
		sim_fault_fired("conn_stall", 1);
	} else if (s->conn->h[side].stalled) {
		release_half(s->conn, side);
	}
}

// stall/heal one direction of every TCP connection whose server side is
// bound to `port` (toward_server: data flowing client -> server)
void
simnet_stall_port(uint16_t port, int toward_server, int on)
{
	for (Conn *c : *N.conns) {
		if (c->addr[1].port != port || c->addr[1].family == AF_UNIX)
			continue;
		int side = toward_server ? 1 : 0; // h[side] = what that side receives
		if (on) {
			c->h[side].stalled = true;
			sim_fault_fired("conn_stall", 1);
		} else if (c->h[side].stalled) {
			release_half(c, side);
		}
	}
}

void
simnet_partition(uint32_t a, uint32_t b, int on)
{
	if (on) {
		N.partitions->insert(std::make_pair(a, b));
		sim_fault_fired("partition", 1);
	} else {
		N.partitions->erase(std::make_pair(a, b));
		N.partitions->erase(std::make_pair(b, a));
	}
	for (Conn *c : *N.conns) {
		uint32_t x = ip4_of(c->addr[0]), y = ip4_of(c->addr[1]);
		if ((x == a && y == b) || (x == b && y == a)) {
			for (int sd = 0; sd < 2; sd++) {
				if (on)
					c->h[sd].stalled = true;
				else if (c->h[sd].stalled)
					release_half(c, sd);
			}
		}
	}
}

void
simnet_blackhole(uint32_t ip, uint16_t port, int on)
{
	if (on)
		N.blackholes->insert(std::make_pair(ip, port));
	else
		N.blackholes->erase(std::make_pair(ip, port));
}

void
simnet_kill_conns_of(uint32_t ip, uint16_t port)
{
	for (Conn *c : *N.conns) {
		if (ip4_of(c->addr[1]) == ip && c->addr[1].port == port) {
			for (int sd = 0; sd < 2; sd++) {
				if (!c->closed[sd])
					c->h[sd].rst = true;
			}
			sim_fault_fired("peer_crash_reset", 1);
		}
	}
}

int
simnet_inflight(void)
{
	return N.inflight_segs;
}

void
simnet_set_connect_hook(simnet_connect_hook h)
{
	N.connect_hook = h;
}

int
simnet_poll_in(int fd)
{
	return (fd_revents(fd) & EPOLLIN) ? 1 : 0;
}

} // extern "C"

// debugging aid (call from gdb: `call simnet_dump()`): connected sockets and
// what the pollers know about them
extern "C" void
simnet_dump(void)
{
	// SIM_DUMP_NET=/path appends there (a run's stderr is only kept on a crash)
	const char *dp = getenv("SIM_DUMP_NET");
	FILE *df = (dp != NULL && dp[0] == '/') ? fopen(dp, "a") : NULL;
	FILE *out = df != NULL ? df : stderr;
	for (int i = 0; i < FD_MAX; i++) {
		if (N.fds[i].kind != FK_SOCK)
			continue;
		Sock *s = (Sock *) N.fds[i].obj;
		int   fd = FD_BASE + i;
		fprintf(out, "fd %d state %d", fd, s->state);
		if (s->conn != NULL) {
			Half &me = s->conn->h[s->side];
			fprintf(out, " conn %d side %d rcv %zu inq %zu eof %d rst %d reported %d peer_closed %d", s->conn->id,
			    s->side, me.rcv.size(), me.inq.size(), (int) me.eof, (int) me.rst, (int) me.rst_reported,
			    (int) s->conn->closed[1 - s->side]);
		}
		for (int j = 0; j < FD_MAX; j++) {
			if (N.fds[j].kind != FK_EPOLL)
				continue;
			Epoll *e = (Epoll *) N.fds[j].obj;
			auto   it = e->items.find(fd);
			if (it != e->items.end())
				fprintf(out, " [ep %d events %x armed %d]", FD_BASE + j, it->second.events, (int) it->second.armed);
		}
		fprintf(out, "\n");
	}
	if (df != NULL)
		fclose(df);
}
