#include "util.h"
#include <stdarg.h>

std::string
h_url(int tr, int idx)
{
	char b[96];
	switch (tr) {
	case TR_TCP:
		snprintf(b, sizeof(b), "tcp://127.0.0.1:%d", 5000 + idx);
		break;
	case TR_IPC:
		snprintf(b, sizeof(b), "ipc:///sim/sock%d", idx);
		break;
	case TR_WS:
		snprintf(b, sizeof(b), "ws://127.0.0.1:%d/p%d", 8000 + idx, idx);
		break;
	case TR_ABSTRACT:
		snprintf(b, sizeof(b), "abstract://sim%d", idx);
		break;
	case TR_TCP6:
		snprintf(b, sizeof(b), "tcp://[::1]:%d", 6000 + idx);
		break;
	default:
		snprintf(b, sizeof(b), "inproc://sim%d", idx);
		break;
	}
	return b;
}

const char *
h_tr_name(int tr)
{
	static const char *n[] = { "inproc", "tcp", "ipc", "ws", "abstract", "tcp6" };
	return tr >= 0 && tr < TR_N ? n[tr] : "?";
}

static void
uaio_cb(void *arg)
{
	UAio *u = (UAio *) arg;
	u->cb_count++;
	u->total_cbs++;
	if (u->cb_count > 1)
		sim_violation("C02", "user_callback_twice",
		    "callback ran %d times for one submission of %s", u->cb_count,
		    u->what ? u->what : "?");
	u->result    = nng_aio_result(u->aio);
	u->t_done_ns = sim_now_ns();
	if (u->on_done)
		u->on_done(u);
	u->done = 1;
}

UAio::UAio()
{
	aio = NULL;
	done = 0;
	cb_count = submissions = total_cbs = 0;
	result = NNG_OK;
	what = NULL;
	on_done = NULL;
	user = NULL;
	if (nng_aio_alloc(&aio, uaio_cb, this) != 0)
		aio = NULL;
}

UAio::~UAio()
{
	if (aio)
		nng_aio_free(aio);
}

void
UAio::arm(const char *w)
{
	what = w;
	done = 0;
	cb_count = 0;
	submissions++;
	t_submit_ns = sim_now_ns();
}

nng_err
UAio::wait(uint64_t timeout_ns)
{
	if (sim_wait_flag(&done, timeout_ns) != 0)
		return (nng_err) -1;
	return result;
}

// ------------------------------------------------------------- Bounded ---
// One shared daemon watches all guarded calls in progress; it exists only
// while there is one and polls every 250 ms of virtual time.
static std::vector<Bounded::State *> g_bounded;
static bool                          g_bounded_dog;

static void
bounded_watchdog(void *)
{
	for (;;) {
		bool any = false;
		for (size_t i = 0; i < g_bounded.size(); i++) { // may grow while we look (clock reads yield)
			Bounded::State *st = g_bounded[i];
			if (st->done)
				continue;
			any              = true;
			uint64_t now     = sim_now_ns();
			uint64_t stalled = sim_stall_total_ns() - st->stall0;
			uint64_t used    = now - st->t0 > stalled ? now - st->t0 - stalled : 0;
			if (used >= st->bound_ns)
				sim_violation(st->prop, st->cls,
				    "%s did not return within %.1f s of virtual time (thread stalls excluded)", st->what,
				    (double) st->bound_ns / 1e9);
		}
		if (!any)
			break;
		sim_sleep_ns(250000000);
	}
	g_bounded.clear();
	g_bounded_dog = false;
}

Bounded::Bounded(const char *prop, const char *cls, uint64_t bound_ns, const char *fmt, ...)
{
	st           = (State *) calloc(1, sizeof(State));
	st->prop     = prop;
	st->cls      = cls;
	st->bound_ns = bound_ns;
	va_list ap;
	va_start(ap, fmt);
	vsnprintf(st->what, sizeof(st->what), fmt, ap);
	va_end(ap);
	st->t0     = sim_now_ns();
	st->stall0 = sim_stall_total_ns();
	g_bounded.push_back(st);
	if (!g_bounded_dog) {
		g_bounded_dog = true;
		sim_spawn("watchdog", bounded_watchdog, NULL, SIM_TASK_DAEMON);
	}
}

Bounded::~Bounded()
{
	st->done = 1; // the state stays allocated: the watchdog may still look at it
}
