// Harness framework shared by all scenarios.
#ifndef VERIF_H_H
#define VERIF_H_H

#include "../sim/sim.h"

#include <nng/nng.h>

#include <stdarg.h>
#include <stdint.h>
#include <stdio.h>
#include <stdlib.h>
#include <string.h>

#include <map>
#include <string>
#include <vector>

struct Params {
	std::map<std::string, std::string> kv;
	bool has(const char *k) const { return kv.count(k) != 0; }
	long
	i(const char *k, long d) const
	{
		auto it = kv.find(k);
		return it == kv.end() ? d : strtol(it->second.c_str(), NULL, 0);
	}
	double
	d(const char *k, double dflt) const
	{
		auto it = kv.find(k);
		return it == kv.end() ? dflt : strtod(it->second.c_str(), NULL);
	}
	std::string
	s(const char *k, const char *d) const
	{
		auto it = kv.find(k);
		return it == kv.end() ? std::string(d) : it->second;
	}
	void
	set(const char *k, long v)
	{
		kv[k] = std::to_string(v);
	}
	// swarm parameter: explicit override wins, else drawn from the recorded
	// WORK stream (0 is the simplest value)
	long
	draw(const char *k, long lo, long hi)
	{
		if (has(k)) {
			// still consume the draw so that choice positions are stable
			(void) sim_rand_range(SIM_RNG_WORK, 0, (uint64_t) (hi - lo));
			return i(k, lo);
		}
		long v = lo + (long) sim_rand_range(SIM_RNG_WORK, 0, (uint64_t) (hi - lo));
		drawn[k] = v;
		return v;
	}
	std::map<std::string, long> drawn; // reported in samples
};

struct Scenario {
	const char *name;
	const char *prop;
	void (*configure)(sim_config *, Params *);
	void (*run)(Params *);
};

void            scenario_register(const Scenario *);
const Scenario *scenario_find(const char *name);
const std::vector<const Scenario *> &scenario_all(void);

struct ScenarioReg {
	ScenarioReg(const Scenario *s) { scenario_register(s); }
};
#define SCENARIO(nm, prop, cfgfn, runfn)                                    \
	static const Scenario sc_##nm = { #nm, prop, cfgfn, runfn };        \
	static ScenarioReg    screg_##nm(&sc_##nm)

// ---- work-stream helpers (recorded, shrinkable) ----
static inline long
W(long lo, long hi)
{
	return lo + (long) sim_rand_range(SIM_RNG_WORK, 0, (uint64_t) (hi - lo));
}
static inline bool
Wp(double p)
{
	return sim_rand_chance(SIM_RNG_WORK, p) != 0;
}
static inline long
F(long lo, long hi)
{
	return lo + (long) sim_rand_range(SIM_RNG_FAULT, 0, (uint64_t) (hi - lo));
}
static inline bool
Fp(double p)
{
	return sim_rand_chance(SIM_RNG_FAULT, p) != 0;
}

// ---- failure helpers ----
// harness-level unexpected failure (not a property violation): infrastructure
void h_fatal(const char *fmt, ...) __attribute__((format(printf, 1, 2), noreturn));
#define MUST(expr)                                                          \
	do {                                                                \
		int rv_ = (expr);                                           \
		if (rv_ != 0)                                               \
			h_fatal("%s:%d: %s -> %d (%s)", __FILE__, __LINE__, \
			    #expr, rv_, nng_strerror((nng_err) rv_));        \
	} while (0)

extern const char *h_prop; // property of running scenario
#define VIOL(cls, ...) sim_violation(h_prop, cls, __VA_ARGS__)

// ---- tagged payloads (DESIGN 6.2) ----
// layout: magic u32 | origin u16 | stream u16 | serial u32 | len u32 | fill... | sum u32
// for len < 20 the payload is a pure function of (origin, stream, serial, len)
struct Tag {
	uint16_t origin, stream;
	uint32_t serial;
	uint32_t len;
	bool     ok;
};
void     tag_fill(uint8_t *buf, size_t len, uint16_t origin, uint16_t stream, uint32_t serial);
nng_msg *tag_msg(size_t len, uint16_t origin, uint16_t stream, uint32_t serial);
// verify a payload; returns Tag with ok=false on corruption.  For short
// payloads (<20) the caller must supply the expected identity.
Tag  tag_parse(const uint8_t *buf, size_t len);
bool tag_check_short(const uint8_t *buf, size_t len, uint16_t origin, uint16_t stream, uint32_t serial);
#define TAG_MIN 20

// ---- misc ----
std::string h_url_inproc(const char *base, int n);
std::string h_hex(const uint8_t *p, size_t n, size_t max = 32);
void        h_common_configure(sim_config *cfg, Params *p);
// standard timeouts used by scenarios so that nothing blocks forever
#define H_TMO_MS 20000

#endif
