// Scenario utilities: urls, user-aio wrapper with exactly-once accounting.
#ifndef VERIF_UTIL_H
#define VERIF_UTIL_H
#include "h.h"

enum { TR_INPROC = 0, TR_TCP, TR_IPC, TR_WS, TR_ABSTRACT, TR_TCP6, TR_N };
std::string h_url(int tr, int idx);
const char *h_tr_name(int tr);
static inline void
h_settle(void)
{
	sim_quiesce(2000000);
}

// A user-level aio whose callback counts invocations per submission.
struct UAio {
	nng_aio     *aio;
	volatile int done;      // set by callback
	int          cb_count;  // callbacks since last arm()
	int          submissions;
	int          total_cbs;
	nng_err      result;
	uint64_t     t_submit_ns, t_done_ns;
	const char  *what;
	void (*on_done)(UAio *);
	void *user;
	UAio();
	~UAio();
	void arm(const char *what); // call right before submitting
	// wait for completion (blocks the task on the flag); returns result
	nng_err wait(uint64_t timeout_ns = 0);
	bool    poll() const { return done != 0; }
};

// Bounded liveness for a blocking call made by the current task: if the
// guarded scope is still executing after `bound_ns` of virtual time (not
// counting injected thread stalls) the run ends with violation `cls` of
// property `prop`.  Implemented by a daemon watchdog task, so it also turns
// a "hang with timers still ticking" (which the deadlock detector cannot
// see) into a definite verdict.
struct Bounded {
	struct State {
		volatile int done;
		const char  *prop, *cls;
		char         what[96];
		uint64_t     bound_ns, t0, stall0;
	};
	State *st;
	Bounded(const char *prop, const char *cls, uint64_t bound_ns, const char *fmt, ...)
	    __attribute__((format(printf, 5, 6)));
	~Bounded();
};
#endif
