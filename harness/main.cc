// nngsim: runs scenarios under the simulator.
//   nngsim list
//   nngsim run <scenario> <seed> [k=v ...] [--work a,b,c] [--fault a,b,c]
//   nngsim worker            (one command per stdin line, same syntax w/o "run")
// Every run executes in a child forked from this (thread-free) process.
#include "h.h"

#include <errno.h>
#include <fcntl.h>
#include <poll.h>
#include <signal.h>
#include <sys/personality.h>
#include <sys/wait.h>
#include <time.h>
#include <unistd.h>

#include <sstream>

extern "C" void sim_set_result_fd(int fd);
extern "C" void sim_set_default_prop(const char *p);
extern "C" void aiomon_report(void);

const char *h_prop = "C03";

// non-inline so it is emitted
extern "C" __attribute__((used)) const char *
__asan_default_options(void)
{
	return "exitcode=77:detect_leaks=0:abort_on_error=0:handle_abort=1:"
	       "allocator_may_return_null=1:detect_stack_use_after_return=0:"
	       "symbolize=1:fast_unwind_on_malloc=1:malloc_context_size=12";
}
extern "C" __attribute__((used)) const char *
__ubsan_default_options(void)
{
	return "print_stacktrace=1:halt_on_error=1:exitcode=78";
}

static std::vector<const Scenario *> *g_scen;

void
scenario_register(const Scenario *s)
{
	if (!g_scen)
		g_scen = new std::vector<const Scenario *>();
	g_scen->push_back(s);
}
const Scenario *
scenario_find(const char *name)
{
	if (g_scen)
		for (auto s : *g_scen)
			if (!strcmp(s->name, name))
				return s;
	return NULL;
}
const std::vector<const Scenario *> &
scenario_all(void)
{
	static std::vector<const Scenario *> empty;
	return g_scen ? *g_scen : empty;
}

void
h_fatal(const char *fmt, ...)
{
	char    buf[768];
	va_list ap;
	va_start(ap, fmt);
	vsnprintf(buf, sizeof(buf), fmt, ap);
	va_end(ap);
	extern void sim_finish_with(const char *, const char *, const char *,
	    const char *) __attribute__((noreturn));
	sim_finish_with("harness", "", "harness_error", buf);
}

// ------------------------------------------------------------------ tags ---
static inline uint64_t
mix64(uint64_t z)
{
	z = (z ^ (z >> 30)) * 0xbf58476d1ce4e5b9ull;
	z = (z ^ (z >> 27)) * 0x94d049bb133111ebull;
	return z ^ (z >> 31);
}
static inline void
put32(uint8_t *p, uint32_t v)
{
	p[0] = (uint8_t) (v >> 24);
	p[1] = (uint8_t) (v >> 16);
	p[2] = (uint8_t) (v >> 8);
	p[3] = (uint8_t) v;
}
static inline uint32_t
get32(const uint8_t *p)
{
	return ((uint32_t) p[0] << 24) | ((uint32_t) p[1] << 16) |
	    ((uint32_t) p[2] << 8) | p[3];
}
#define TAG_MAGIC 0x7461674du

void
tag_fill(uint8_t *buf, size_t len, uint16_t origin, uint16_t stream,
    uint32_t serial)
{
	uint64_t st = mix64(((uint64_t) origin << 48) ^ ((uint64_t) stream << 32) ^
	    serial ^ ((uint64_t) len << 20) ^ 0x5eedull);
	if (len < TAG_MIN) {
		for (size_t i = 0; i < len; i++) {
			st     = mix64(st + i + 1);
			buf[i] = (uint8_t) st;
		}
		return;
	}
	put32(buf, TAG_MAGIC);
	buf[4] = (uint8_t) (origin >> 8);
	buf[5] = (uint8_t) origin;
	buf[6] = (uint8_t) (stream >> 8);
	buf[7] = (uint8_t) stream;
	put32(buf + 8, serial);
	put32(buf + 12, (uint32_t) len);
	uint32_t sum = 0x811c9dc5u;
	for (size_t i = 16; i < len - 4; i++) {
		st     = mix64(st + i);
		buf[i] = (uint8_t) st;
	}
	for (size_t i = 0; i < len - 4; i++) {
		sum ^= buf[i];
		sum *= 16777619u;
	}
	put32(buf + len - 4, sum);
}

nng_msg *
tag_msg(size_t len, uint16_t origin, uint16_t stream, uint32_t serial)
{
	nng_msg *m = NULL;
	if (nng_msg_alloc(&m, len) != 0)
		return NULL;
	tag_fill((uint8_t *) nng_msg_body(m), len, origin, stream, serial);
	return m;
}

Tag
tag_parse(const uint8_t *buf, size_t len)
{
	Tag t;
	memset(&t, 0, sizeof(t));
	if (len < TAG_MIN || get32(buf) != TAG_MAGIC)
		return t;
	t.origin = (uint16_t) ((buf[4] << 8) | buf[5]);
	t.stream = (uint16_t) ((buf[6] << 8) | buf[7]);
	t.serial = get32(buf + 8);
	t.len    = get32(buf + 12);
	if (t.len != len)
		return t;
	// recompute the whole thing
	std::vector<uint8_t> ref(len);
	tag_fill(ref.data(), len, t.origin, t.stream, t.serial);
	t.ok = memcmp(ref.data(), buf, len) == 0;
	return t;
}

bool
tag_check_short(const uint8_t *buf, size_t len, uint16_t origin,
    uint16_t stream, uint32_t serial)
{
	std::vector<uint8_t> ref(len ? len : 1);
	tag_fill(ref.data(), len, origin, stream, serial);
	return memcmp(ref.data(), buf, len) == 0;
}

std::string
h_hex(const uint8_t *p, size_t n, size_t max)
{
	std::string s;
	char        b[4];
	for (size_t i = 0; i < n && i < max; i++) {
		snprintf(b, sizeof(b), "%02x", p[i]);
		s += b;
	}
	if (n > max)
		s += "..";
	return s;
}

std::string
h_url_inproc(const char *base, int n)
{
	char b[64];
	snprintf(b, sizeof(b), "inproc://%s%d", base, n);
	return b;
}

// ---------------------------------------------------------- common swarm ---
void
h_common_configure(sim_config *cfg, Params *p)
{
	long st = p->draw("strat", 0, 9);
	if (st == 0) {
		cfg->strategy = 2;
	} else if (st <= 4) {
		cfg->strategy = 0;
		cfg->switch_p = 0.1;
	} else if (st <= 6) {
		cfg->strategy = 0;
		cfg->switch_p = 0.3;
	} else if (st == 7) {
		cfg->strategy = 0;
		cfg->switch_p = 0.02;
	} else {
		cfg->strategy  = 1;
		cfg->pct_depth = 1 + (int) p->draw("pct_d", 0, 3);
		cfg->pct_len   = (uint64_t) p->i("pct_len", 20000);
	}
	p->set("tasks", 2 + p->draw("xtasks", 0, 2));
	p->set("expires", 1 + p->draw("xexp", 0, 1));
	p->set("pollers", 1 + p->draw("xpoll", 0, 1));
	long bug = p->draw("bug", 0, 15);
	if (bug & 8)
		cfg->list_points = 1;
	if (bug & 1)
		cfg->spurious_wake_p = 0.01;
	if (bug & 2)
		cfg->eintr_p = 0.02;
	if (bug & 4)
		cfg->epoll_partial_p = 0.2;
	long stall = p->draw("stall", 0, 3);
	if (stall == 2) {
		cfg->stall_p      = 1.0 / 3000;
		cfg->stall_max_ns = 5000000;
	} else if (stall == 3) {
		cfg->stall_p      = 1.0 / 1500;
		cfg->stall_max_ns = 50000000;
	}
}

static void
apply_overrides(sim_config *c, const Params *p)
{
#define OVI(name)                                                     \
	if (p->has(#name))                                            \
	c->name = (__typeof__(c->name)) p->i(#name, 0)
#define OVD(name)                                                     \
	if (p->has(#name))                                            \
	c->name = p->d(#name, 0)
	OVI(strategy);
	OVD(switch_p);
	OVI(pct_depth);
	OVI(pct_len);
	OVI(max_steps);
	OVI(max_virtual_ns);
	OVI(clock_cost_ns);
	OVI(step_cost_ns);
	OVI(slack_max_ns);
	OVD(stall_p);
	OVI(stall_max_ns);
	OVD(spurious_wake_p);
	OVD(eintr_p);
	OVD(epoll_partial_p);
	OVI(list_points);
	OVI(seg_mode);
	OVI(seg_k);
	OVD(eagain_p);
	OVI(lat_min_ns);
	OVI(lat_max_ns);
	OVI(sndbuf_min);
	OVI(sndbuf_max);
	OVI(conn_delay_max_ns);
	OVD(accept_err_p);
	OVD(unix_backlog_full_p);
	OVI(fail_alloc_k);
	OVD(fail_alloc_p);
	OVI(trace_level);
	OVI(record_decisions);
}

// ------------------------------------------------------------ child side ---
static std::vector<uint64_t>
parse_list(const std::string &s)
{
	std::vector<uint64_t> v;
	const char           *p = s.c_str();
	while (*p) {
		char *e;
		v.push_back(strtoull(p, &e, 10));
		p = *e == ',' ? e + 1 : e;
		if (e == p && *p)
			break;
	}
	return v;
}

struct Cmd {
	std::string scenario;
	uint64_t    seed;
	Params      params;
	bool        have_work, have_fault;
	std::vector<uint64_t> work, fault;
	int         wall_timeout_s;
};

static bool
parse_cmd(const std::vector<std::string> &tok, Cmd *c)
{
	if (tok.size() < 2)
		return false;
	c->scenario       = tok[0];
	c->seed           = strtoull(tok[1].c_str(), NULL, 0);
	c->have_work      = false;
	c->have_fault     = false;
	c->wall_timeout_s = 60;
	for (size_t i = 2; i < tok.size(); i++) {
		if (tok[i] == "--work" && i + 1 < tok.size()) {
			c->work      = parse_list(tok[++i]);
			c->have_work = true;
		} else if (tok[i] == "--fault" && i + 1 < tok.size()) {
			c->fault      = parse_list(tok[++i]);
			c->have_fault = true;
		} else if (tok[i] == "--wall" && i + 1 < tok.size()) {
			c->wall_timeout_s = atoi(tok[++i].c_str());
		} else {
			size_t eq = tok[i].find('=');
			if (eq == std::string::npos)
				return false;
			c->params.kv[tok[i].substr(0, eq)] = tok[i].substr(eq + 1);
		}
	}
	return true;
}

static void
child_run(const Cmd &cmd, int result_fd)
{
	const Scenario *sc = scenario_find(cmd.scenario.c_str());
	sim_set_result_fd(result_fd);
	if (sc == NULL) {
		dprintf(result_fd,
		    "{\"status\":\"harness\",\"class\":\"unknown_scenario\","
		    "\"detail\":\"%s\"}\n",
		    cmd.scenario.c_str());
		_exit(0);
	}
	Params p = cmd.params;
	sim_seed(cmd.seed);
	if (cmd.have_work)
		sim_replay_load(SIM_RNG_WORK, cmd.work.data(), cmd.work.size());
	if (cmd.have_fault)
		sim_replay_load(SIM_RNG_FAULT, cmd.fault.data(), cmd.fault.size());
	sim_config cfg;
	sim_config_default(&cfg);
	cfg.seed = cmd.seed;
	h_common_configure(&cfg, &p);
	if (sc->configure)
		sc->configure(&cfg, &p);
	apply_overrides(&cfg, &p);
	h_prop = sc->prop;
	sim_set_default_prop(sc->prop);
	sim_begin(&cfg);
	{
		std::string d = "cfg:";
		for (auto &kv : p.drawn)
			d += " " + kv.first + "=" + std::to_string(kv.second);
		sim_sample("%s", d.c_str());
	}
	if (!p.i("no_init", 0)) {
		nng_init_params ip;
		memset(&ip, 0, sizeof(ip));
		ip.num_task_threads     = (int16_t) p.i("tasks", 2);
		ip.max_task_threads     = ip.num_task_threads;
		ip.num_expire_threads   = (int16_t) p.i("expires", 1);
		ip.max_expire_threads   = ip.num_expire_threads;
		ip.num_poller_threads   = (int16_t) p.i("pollers", 1);
		ip.max_poller_threads   = ip.num_poller_threads;
		ip.num_resolver_threads = (int16_t) p.i("resolvers", 1);
		ip.malloc_fn            = sim_malloc;
		ip.calloc_fn            = sim_calloc;
		ip.free_fn              = sim_free;
		sim_alloc_enable_faults(0);
		int rv = nng_init(&ip);
		if (rv != 0)
			h_fatal("nng_init failed: %d", rv);
		sim_alloc_enable_faults(1);
	}
	sc->run(&p);
	if (sim_live_tasks() != 0)
		h_fatal("scenario returned with %d harness tasks still running",
		    sim_live_tasks());
	sim_kill_daemons();
	if (!p.i("no_init", 0)) {
		sim_alloc_enable_faults(0);
		nng_fini();
		sim_alloc_check_balance(NULL);
	}
	aiomon_report();
	sim_finish();
}

// ----------------------------------------------------------- parent side ---
static double
wall_now(void)
{
	struct timespec ts;
	clock_gettime(CLOCK_MONOTONIC, &ts);
	return (double) ts.tv_sec + (double) ts.tv_nsec / 1e9;
}

static void
json_escape_to(std::string &out, const std::string &s)
{
	for (unsigned char c : s) {
		if (c == '"' || c == '\\') {
			out += '\\';
			out += (char) c;
		} else if (c == '\n') {
			out += "\\n";
		} else if (c == '\t') {
			out += "\\t";
		} else if (c < 0x20 || c >= 0x7f) {
			char b[8];
			snprintf(b, sizeof(b), "\\u%04x", c);
			out += b;
		} else {
			out += (char) c;
		}
	}
}

static void
run_forked(const Cmd &cmd, FILE *out)
{
	int rp[2], ep[2];
	if (pipe(rp) != 0 || pipe(ep) != 0) {
		perror("pipe");
		exit(3);
	}
	double t0  = wall_now();
	pid_t  pid = fork();
	if (pid == 0) {
		close(rp[0]);
		close(ep[0]);
		dup2(ep[1], 2);
		close(ep[1]);
		child_run(cmd, rp[1]);
		_exit(0);
	}
	close(rp[1]);
	close(ep[1]);
	std::string   res, err;
	struct pollfd pf[2] = { { rp[0], POLLIN, 0 }, { ep[0], POLLIN, 0 } };
	bool          open0 = true, open1 = true, timed_out = false;
	while (open0 || open1) {
		double left = cmd.wall_timeout_s - (wall_now() - t0);
		if (left <= 0) {
			timed_out = true;
			kill(pid, SIGKILL);
			break;
		}
		pf[0].fd = open0 ? rp[0] : -1;
		pf[1].fd = open1 ? ep[0] : -1;
		int n    = poll(pf, 2, (int) (left * 1000) + 1);
		if (n < 0 && errno == EINTR)
			continue;
		char buf[65536];
		for (int i = 0; i < 2; i++) {
			if (pf[i].fd >= 0 && (pf[i].revents & (POLLIN | POLLHUP | POLLERR))) {
				ssize_t k = read(pf[i].fd, buf, sizeof(buf));
				if (k <= 0) {
					if (i == 0)
						open0 = false;
					else
						open1 = false;
				} else if (i == 0) {
					res.append(buf, (size_t) k);
				} else if (err.size() < 200000) {
					err.append(buf, (size_t) k);
				}
			}
		}
	}
	close(rp[0]);
	close(ep[0]);
	int status = 0;
	waitpid(pid, &status, 0);
	if (getenv("NNGSIM_STDERR") != NULL && !err.empty())
		fwrite(err.data(), 1, err.size(), stderr);
	double wall_ms = (wall_now() - t0) * 1000.0;
	std::string line;
	size_t      nl = res.find('\n');
	bool sanit = res.compare(0, 21, "{\"status\":\"sanitizer\"") == 0;
	if (!timed_out && nl != std::string::npos && res[0] == '{' && sanit) {
		// the child died in a sanitizer report after emitting its choices
		line = res.substr(0, nl);
		line.erase(line.size() - 1);
		line.replace(0, 21, "{\"status\":\"crash\"");
		char b[160];
		snprintf(b, sizeof(b), ",\"scenario\":\"%s\",\"exit\":%d,\"signal\":%d,\"wall_ms\":%.2f,\"stderr\":\"",
		    cmd.scenario.c_str(), WIFEXITED(status) ? WEXITSTATUS(status) : -1,
		    WIFSIGNALED(status) ? WTERMSIG(status) : 0, wall_ms);
		line += b;
		if (err.size() > 12000)
			err = err.substr(0, 12000);
		json_escape_to(line, err);
		line += "\"}";
	} else if (!timed_out && nl != std::string::npos && res[0] == '{') {
		line = res.substr(0, nl);
		// append wall time and scenario
		line.erase(line.size() - 1); // drop '}'
		char b[128];
		snprintf(b, sizeof(b), ",\"wall_ms\":%.2f,\"scenario\":\"%s\"}",
		    wall_ms, cmd.scenario.c_str());
		line += b;
	} else {
		const char *st = timed_out ? "hang" : "crash";
		char        b[256];
		snprintf(b, sizeof(b),
		    "{\"status\":\"%s\",\"seed\":%llu,\"scenario\":\"%s\","
		    "\"exit\":%d,\"signal\":%d,\"wall_ms\":%.2f,\"stderr\":\"",
		    st, (unsigned long long) cmd.seed, cmd.scenario.c_str(),
		    WIFEXITED(status) ? WEXITSTATUS(status) : -1,
		    WIFSIGNALED(status) ? WTERMSIG(status) : 0, wall_ms);
		line = b;
		if (err.size() > 12000)
			err = err.substr(0, 12000);
		json_escape_to(line, err);
		line += "\"}";
	}
	fprintf(out, "%s\n", line.c_str());
	fflush(out);
}

static std::vector<std::string>
split_ws(const std::string &s)
{
	std::vector<std::string> v;
	std::istringstream       is(s);
	std::string              t;
	while (is >> t)
		v.push_back(t);
	return v;
}

int
main(int argc, char **argv)
{
	// fixed address space layout: pointer-ordered locking stays stable
	if (getenv("NNGSIM_NO_REEXEC") == NULL) {
		int pers = personality(0xffffffff);
		if (pers != -1 && !(pers & ADDR_NO_RANDOMIZE)) {
			if (personality(pers | ADDR_NO_RANDOMIZE) != -1) {
				setenv("NNGSIM_NO_REEXEC", "1", 1);
				execv("/proc/self/exe", argv);
			}
		}
	}
	signal(SIGPIPE, SIG_IGN);
	if (argc >= 2 && !strcmp(argv[1], "list")) {
		for (auto s : scenario_all())
			printf("%s %s\n", s->name, s->prop);
		return 0;
	}
	if (argc >= 4 && !strcmp(argv[1], "run")) {
		std::vector<std::string> tok;
		for (int i = 2; i < argc; i++)
			tok.push_back(argv[i]);
		Cmd c;
		if (!parse_cmd(tok, &c)) {
			fprintf(stderr, "bad command\n");
			return 3;
		}
		run_forked(c, stdout);
		return 0;
	}
	if (argc >= 2 && !strcmp(argv[1], "worker")) {
		char  *line = NULL;
		size_t cap  = 0;
		while (getline(&line, &cap, stdin) > 0) {
			Cmd c;
			if (!parse_cmd(split_ws(line), &c)) {
				printf("{\"status\":\"harness\",\"class\":\"bad_command\"}\n");
				fflush(stdout);
				continue;
			}
			run_forked(c, stdout);
		}
		return 0;
	}
	fprintf(stderr, "usage: nngsim list | run <scenario> <seed> [k=v..] | worker\n");
	return 3;
}
