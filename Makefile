# Builds libnng (from /repo's current working tree, via its own CMake) with
# sanitizers, and links the simulator + harness + scenarios against it.
REPO ?= /repo
B := build
NNGB := $(B)/nng-$(shell echo $(REPO) | md5sum | cut -c1-8)
SAN := -fsanitize=address,undefined -fno-sanitize-recover=all -fno-sanitize=nonnull-attribute
NNG_CFLAGS := -O1 -g -fno-omit-frame-pointer $(SAN) -DNDEBUG
CXX := g++
CC := gcc
CXXFLAGS := -std=c++17 -O1 -g -fno-omit-frame-pointer $(SAN) -Wall -Wno-unused-function -I$(REPO)/include -DNNG_STATIC_LIB
CFLAGS := -O1 -g -fno-omit-frame-pointer $(SAN) -Wall
WRAPS := $(shell cat sim/wraps.txt)
WRAPFLAGS := $(foreach w,$(WRAPS),-Wl,--wrap=$(w))

SRCS_CC := $(wildcard sim/*.cc harness/*.cc scenarios/*.cc)
SRCS_C := $(wildcard sim/*.c)
OBJS := $(patsubst %.cc,$(B)/obj/%.o,$(SRCS_CC)) $(patsubst %.c,$(B)/obj/%.o,$(SRCS_C))

all: $(B)/nngsim

.PHONY: libnng all clean
libnng:
	@mkdir -p $(B)
	@if [ ! -f $(NNGB)/build.ninja ]; then \
	  cmake -G Ninja -S $(REPO) -B $(NNGB) -DCMAKE_BUILD_TYPE=None \
	    -DCMAKE_C_FLAGS="$(NNG_CFLAGS)" -DNNG_TESTS=OFF -DNNG_TOOLS=OFF \
	    -DBUILD_SHARED_LIBS=OFF -DNNG_ENABLE_TLS=OFF -DNNG_ENABLE_NNGCAT=OFF \
	    -DCMAKE_EXPORT_COMPILE_COMMANDS=ON > $(B)/cmake.log 2>&1 || (cat $(B)/cmake.log; exit 1); \
	fi
	@ninja -C $(NNGB) > $(B)/ninja.log 2>&1 || { \
	  echo "ninja failed in $(NNGB): configuring afresh and trying once more (stale or time-skewed build directory?)"; \
	  rm -rf $(NNGB); \
	  cmake -G Ninja -S $(REPO) -B $(NNGB) -DCMAKE_BUILD_TYPE=None \
	    -DCMAKE_C_FLAGS="$(NNG_CFLAGS)" -DNNG_TESTS=OFF -DNNG_TOOLS=OFF \
	    -DBUILD_SHARED_LIBS=OFF -DNNG_ENABLE_TLS=OFF -DNNG_ENABLE_NNGCAT=OFF \
	    -DCMAKE_EXPORT_COMPILE_COMMANDS=ON > $(B)/cmake.log 2>&1 || (cat $(B)/cmake.log; exit 1); \
	  ninja -C $(NNGB) > $(B)/ninja.log 2>&1 || (tail -50 $(B)/ninja.log; exit 1); }

$(NNGB)/libnng.a: libnng

$(B)/obj/%.o: %.cc $(wildcard sim/*.h harness/*.h scenarios/*.h)
	@mkdir -p $(dir $@)
	$(CXX) $(CXXFLAGS) -c $< -o $@

$(B)/obj/sim/aiomon.o: sim/aiomon.c libnng
	@mkdir -p $(dir $@)
	$(CC) $(CFLAGS) $(shell python3 bin/nngflags.py $(NNGB)) -c $< -o $@

$(B)/obj/%.o: %.c
	@mkdir -p $(dir $@)
	$(CC) $(CFLAGS) -c $< -o $@

$(B)/nngsim: $(OBJS) libnng sim/wraps.txt Makefile
	$(CXX) $(SAN) -o $@ $(OBJS) $(NNGB)/libnng.a $(WRAPFLAGS) -lpthread

clean:
	rm -rf $(B)
